"""The table of checks (one per property) and the generic runner."""
import json, os, sys, time, hashlib
from harness import *  # noqa: F401,F403
import harness as H

# --------------------------------------------------------------------------- engine steps


def step_layer1(pid, tier, seed):
    H.build_tools()
    out = os.path.join(H.OUT, f"{pid}.layer1.json")
    return "layer1", H.run_engine([H.tool("vgraph"), "layer1", "--prop", pid, "--tier", tier, "--seed", str(seed), "--out", out], out)


def step_selfcheck(pid, tier, seed):
    """Trust chain of the reference semantics; a disagreement is a defect of the MACHINERY, never a verdict."""
    H.build_tools()
    out = os.path.join(H.OUT, f"{pid}.selfcheck.json")
    rep = H.run_engine([H.tool("vgraph"), "selfcheck", "--prop", pid, "--tier", tier, "--out", out], out)
    if rep["violations"]:
        raise H.MachineryError("reference self-check failed: " + rep["violations"][0]["detail"][:400])
    return "selfcheck", rep


def step_vgraph(cmd):
    def f(pid, tier, seed):
        H.build_tools()
        out = os.path.join(H.OUT, f"{pid}.{cmd}.json")
        return cmd, H.run_engine([H.tool("vgraph"), cmd, "--prop", pid, "--tier", tier, "--seed", str(seed), "--out", out], out)
    return f


CODE_TAGS = {"CODE-TOKENS": ["C01", "C06"], "CODE-ERRORS": ["C02", "C06"], "CODE-TILING": ["C03", "C06"], "CODE-PARTIAL": ["C07", "C06"],
             "CODE-BACKENDS": ["C06"], "CODE-BOUNDARY": ["C04"], "CODE-READS": ["C20"], "CODE-PANIC": ["C03", "C05", "C06"]}


def step_code(pid, tier, seed):
    """Layer 1.5: the emitted code of every enumerated definition, both code generators, executed by
    the interpreter on model traces of its own graph (vgraph code). The run does not depend on the
    property (only the tag filter does), so its complete result is kept under out/ keyed by the
    content hash of the engine binary - which has /repo's logos-codegen compiled in - and re-used by
    the other properties' checks as long as that binary is unchanged."""
    H.build_tools()
    exe = H.tool("vgraph")
    with open(exe, "rb") as f:
        key = hashlib.sha256(f.read()).hexdigest()[:24]
    cdir = os.path.join(H.OUT, "code-cache")
    os.makedirs(cdir, exist_ok=True)
    cached = os.path.join(cdir, f"{key}.{tier}.{seed}.json")
    if os.path.exists(cached):
        with open(cached) as f:
            rep = json.load(f)
        rep.setdefault("notes", []).append(f"result of the identical engine binary re-used (sha256 {key}); computed once per tree")
    else:
        for old in os.listdir(cdir):
            if old.endswith(f".{tier}.{seed}.json"):
                os.remove(os.path.join(cdir, old))
        rep = H.run_engine([exe, "code", "--prop", "ALL", "--tier", tier, "--seed", str(seed), "--out", cached], cached, timeout=7200)
    rep = dict(rep)
    rep["violations"] = [v for v in rep.get("violations", []) if pid in CODE_TAGS.get(v["tag"], [])]
    return "code", rep


def step_layer2(cfgs_quick, cfgs_thorough, vprop=None, crash_tag=None):
    """Replay on the compiled lexers, one engine run per build configuration."""
    def f(pid, tier, seed):
        reps = []
        for cfg in (cfgs_thorough if tier == "thorough" else cfgs_quick):
            out = os.path.join(H.OUT, f"{pid}.layer2.{cfg}.json")
            reps.append((f"layer2[{cfg}]", H.run_vrt(cfg, tier, seed, "layer2", vprop or pid, out, crash_tag=crash_tag if cfg.startswith("u-") else None)))
        return reps
    return f


def step_stack(pid, tier, seed):
    reps = []
    for cfg in ["u-dev", "u-rel"]:
        out = os.path.join(H.OUT, f"{pid}.stack.{cfg}.json")
        reps.append((f"stack[{cfg}]", H.run_vrt(cfg, tier, seed, "stack", pid, out)))
    return reps


def step_vderive(cmd, cfgs_quick, cfgs_thorough, compare_digests=False):
    def f(pid, tier, seed):
        reps = []
        for cfg in (cfgs_thorough if tier == "thorough" else cfgs_quick):
            out = os.path.join(H.OUT, f"{pid}.{cmd}.{cfg}.json")
            reps.append((f"{cmd}[{cfg}]", H.run_vderive(cfg, cmd, pid, tier, out)))
        if compare_digests:
            # tail-call and state-machine builds must produce identical transcripts (results, spans, callback logs)
            dig = {n: (r["observed"].get("transcript_digest_high32"), r["observed"].get("transcript_digest_low32")) for n, r in reps}
            if len(set(dig.values())) > 1:
                reps[0][1]["violations"].append({"key": "DIGEST/" + ",".join(dig), "tag": "BUILDS-DIFFER", "case": "transcript digests per build: " + json.dumps({k: list(v) for k, v in dig.items()}),
                                                 "detail": "the complete transcripts (items, spans, callback invocation logs) differ between build configurations",
                                                 "replay": {"kind": "digest", "tag": "BUILDS-DIFFER"}})
        return reps
    return f


def step_cli(pid, tier, seed):
    H.build_tools()
    cli = H.ensure_cli()
    out = os.path.join(H.OUT, f"{pid}.c17.json")
    return "c17", H.run_engine([H.tool("vgraph"), "c17", "--prop", pid, "--tier", tier, "--seed", str(seed), "--file", cli, "--out", out], out)


def probe_good(pdir):
    """Build the crate of valid definitions with the real derive (must compile), then run every
    curated lexer obtained from the REAL proc-macro against the reference lexer (binding of the
    library expansion used by Layer 2 to the derive)."""
    rep = {"engine": "vprobe good (rustc + real derive)", "counts": {}, "observed": {}, "violations": [], "samples": [], "notes": [], "bounds": {}, "exhaustive": True}
    g = H.sh(["cargo", "build", "--offline", "--message-format=json", "--target-dir", "target"], cwd=os.path.join(pdir, "good"), timeout=3600, check=False)
    gerrs = []
    for line in (g.stdout or "").splitlines():
        if line.startswith("{"):
            try:
                m = json.loads(line)
            except ValueError:
                continue
            if m.get("reason") == "compiler-message" and m["message"].get("level") == "error":
                gerrs.append(m["message"]["message"][:200])
    ngood = len(json.load(open(os.path.join(pdir, "good", "cases.json"))))
    rep["counts"]["good_definitions_compiled"] = ngood
    if g.returncode != 0 or gerrs:
        rep["violations"].append({"key": "GOOD-FAILS", "tag": "GOOD-FAILS", "case": "valid definitions through the real derive", "detail": "the crate of valid definitions does not compile: " + " | ".join(gerrs[:5]),
                                  "replay": {"kind": "probe", "tag": "GOOD-FAILS"}})
        return rep
    b = H.sh([os.path.join(pdir, "good", "target", "debug", "bind"), os.path.join(pdir, "good", "cases.json")], timeout=3600, check=False)
    if b.returncode != 0:
        raise H.MachineryError("vprobe bind failed: " + (b.stdout or "")[-500:])
    br = json.loads([l for l in (b.stdout or "").splitlines() if l.startswith("{")][-1])
    rep["counts"]["derive_binding_runs"] = br["counts"].get("evaluations", 0)
    rep["counts"]["traces_validated_against_impl"] = br["counts"].get("traces_validated_against_impl", 0)
    rep["violations"].extend(br["violations"])
    return rep


def step_bind(pid, tier, seed):
    H.build_tools()
    pdir = os.path.join(H.ENGINE, "vprobe")
    H.sh([H.tool("vgraph"), "probe-emit", "--tier", tier, "--out", pdir], timeout=1800)
    return "derive-binding", probe_good(pdir)


def step_probe(pid, tier, seed):
    """C19 through rustc: every single item / same-key pair of the attribute grammar as a real
    #[derive(Logos)] input on the stable toolchain; a proc-macro panic is a violation, a must-reject
    definition without an error diagnostic is a violation; the `good` crate must compile."""
    H.build_tools()
    pdir = os.path.join(H.ENGINE, "vprobe")
    H.sh([H.tool("vgraph"), "probe-emit", "--tier", tier, "--out", pdir], timeout=1800)
    rep = {"engine": "vprobe (rustc, real proc-macro)", "counts": {}, "observed": {}, "violations": [], "samples": [], "notes": [], "bounds": {}, "exhaustive": True}
    cases = json.load(open(os.path.join(pdir, "bad", "cases.json")))
    byline = {}
    for c in cases:
        for l in range(c["line_start"], c["line_end"] + 1):
            byline[l] = c
    p = H.sh(["cargo", "build", "--offline", "--message-format=json", "--target-dir", "target"], cwd=os.path.join(pdir, "bad"), timeout=3600, check=False)
    errors_in = set()
    panics = {}
    ndiag = 0
    for line in (p.stdout or "").splitlines():
        if not line.startswith("{"):
            continue
        try:
            m = json.loads(line)
        except ValueError:
            continue
        if m.get("reason") != "compiler-message":
            continue
        msg = m["message"]
        ndiag += 1
        spans = msg.get("spans") or []
        c = byline.get(spans[0]["line_start"]) if spans else None
        if msg.get("level") == "error" and c is not None:
            errors_in.add(c["n"])
        if "panicked" in msg.get("message", "") and c is not None:
            panics.setdefault(c["n"], (c, [ch.get("message", "") for ch in msg.get("children", [])]))
    if ndiag == 0:
        raise H.MachineryError("vprobe: rustc produced no diagnostics for the bad crate: " + (p.stdout or "")[-500:])
    for n, (c, helps) in sorted(panics.items()):
        rep["violations"].append({"key": "PROC-MACRO-PANIC/" + c["src"], "tag": "PROC-MACRO-PANIC", "case": c["desc"] + ": " + c["src"],
                                  "detail": "rustc: proc-macro derive panicked; " + "; ".join(helps)[:300], "replay": {"kind": "probe", "tag": "PROC-MACRO-PANIC", "src": c["src"]}})
    nmust = 0
    for c in cases:
        if c.get("must_reject"):
            nmust += 1
            if c["n"] not in errors_in:
                rep["violations"].append({"key": "MUSTREJECT-COMPILES/" + c["src"], "tag": "MUSTREJECT-COMPILES", "case": c["desc"] + ": " + c["src"],
                                          "detail": f"must be rejected ({c['must_reject']}) but rustc reports no error for this enum", "replay": {"kind": "probe", "tag": "MUSTREJECT-COMPILES", "src": c["src"]}})
    rep["counts"].update({"evaluations": len(cases), "distinct_nontrivial": len(cases), "must_reject_cases_rustc": nmust, "rustc_diagnostics": ndiag, "programs": len(cases)})
    rep["samples"].append({"derive_input": cases[len(cases) // 3]["src"], "desc": cases[len(cases) // 3]["desc"]})
    good = probe_good(pdir)
    rep["counts"].update(good["counts"])
    rep["violations"].extend(good["violations"])
    rep["bounds"]["rule"] = "real proc-macro path: all single items and all same-key pairs of the attribute grammar compiled by rustc (stable) through #[derive(Logos)]; the curated corpus + callback/extras/error definitions must compile"
    return "vprobe", rep


def step_names(pid, tier, seed):
    """C19 through rustc: enums NAMED like an item the generated code declares or imports (real derive,
    both code generators). The derive accepts them, so the implementation has to compile."""
    import re
    d = os.path.join(H.ENGINE, "vnames")
    H.sh([sys.executable, os.path.join(H.ROOT, "tools", "gen_vnames.py")], timeout=60)
    src = open(os.path.join(d, "src", "lib.rs")).read().split("\n")
    names = [m.group(1) for m in (re.match(r"// NAME: (\S+)", l) for l in src) if m]

    def name_at(line):
        for i in range(min(line, len(src)) - 1, -1, -1):
            m = re.match(r"// NAME: (\S+)", src[i])
            if m:
                return m.group(1)
        return None
    rep = {"engine": "vnames (rustc, real proc-macro)", "counts": {}, "observed": {}, "violations": [], "samples": [], "notes": [], "bounds": {}, "exhaustive": True}
    all_names = list(names)
    for gen, feats in (("tc", []), ("sm", ["--features", "sm"])):
      bad_total = {}
      # rustc stops after the phase in which the first errors occur: the crate is rebuilt without the
      # modules that failed until a pass reports nothing new, so that no failure hides behind another
      for _pass in range(6):
        H.sh([sys.executable, os.path.join(H.ROOT, "tools", "gen_vnames.py")] + (["--skip", ",".join(sorted(bad_total))] if bad_total else []), timeout=60)
        src = open(os.path.join(d, "src", "lib.rs")).read().split("\n")
        p = H.sh(["cargo", "build", "--offline", "--message-format=json", "--target-dir", os.path.join("target", gen)] + feats, cwd=d, timeout=3600, check=False)
        bad, ndiag = {}, 0
        for line in (p.stdout or "").splitlines():
            if not line.startswith("{"):
                continue
            try:
                m = json.loads(line)
            except ValueError:
                continue
            if m.get("reason") != "compiler-message" or m["message"].get("level") != "error":
                continue
            ndiag += 1
            sp = [x for x in m["message"].get("spans") or [] if x["file_name"].endswith("lib.rs")]
            n = name_at(sp[0]["line_start"]) if sp else None
            if n is None:
                if m["message"]["message"].startswith("aborting due to") or m["message"]["message"].startswith("could not compile"):
                    continue
                raise H.MachineryError("vnames: rustc error that cannot be attributed to an enum: " + m["message"]["message"][:300])
            bad.setdefault(n, m["message"]["message"][:200])
        if p.returncode != 0 and not bad:
            raise H.MachineryError("vnames: build failed without an attributable error: " + (p.stdout or "")[-600:])
        bad_total.update(bad)
        if not bad:
            break
      names = all_names
      bad = bad_total
      if True:
        for n, msg in sorted(bad.items()):
            rep["violations"].append({"key": f"NAME-CLASH/{gen}/{n}", "tag": "NAME-CLASH", "case": f"{'label callback ' + n[3:] if n.startswith('cb:') else 'enum ' + n} ({'state-machine' if gen == 'sm' else 'tail-call'} generator)",
                                      "detail": (f"the derive accepts a label callback called {n[3:]} but the generated implementation does not compile (the name is shadowed by a parameter / local / item of the generated code): {msg}" if n.startswith("cb:") else f"the derive accepts an enum called {n} but the generated implementation does not compile (the name collides with an item of the generated code): {msg}"),
                                      "replay": {"kind": "names", "tag": "NAME-CLASH", "generator": gen, "name": n}})
        rep["counts"]["evaluations"] = rep["counts"].get("evaluations", 0) + len(names)
        rep["counts"]["distinct_nontrivial"] = rep["counts"].get("distinct_nontrivial", 0) + len(names)
        rep["counts"]["programs"] = rep["counts"].get("programs", 0) + len(names)
        rep["observed"][f"names_that_compile_{gen}"] = len(names) - len(bad)
    H.sh([sys.executable, os.path.join(H.ROOT, "tools", "gen_vnames.py")], timeout=60)
    rep["bounds"]["rule"] = f"{len(names)} names (enum names, and with the prefix cb: names of label callbacks) taken from the generated code (declared helper items, imported aliases, prelude names, local variable names) x both code generators, compiled by rustc through the real derive; every one must compile"
    rep["samples"].append({"names": names})
    return "vnames", rep


def step_cli16(pid, tier, seed):
    H.build_tools()
    cli = H.ensure_cli()
    out = os.path.join(H.OUT, f"{pid}.c16cli.json")
    return "c16cli", H.run_engine([H.tool("vgraph"), "c16cli", "--prop", pid, "--tier", tier, "--file", cli, "--out", out], out)


def step_miri(pid, tier, seed):
    """C05 supplement (thorough): a small exhaustive family through three real-derive lexers under MIRI."""
    rep = {"engine": "vmiri (cargo +nightly miri run)", "counts": {}, "observed": {}, "violations": [], "samples": [], "notes": [], "bounds": {}, "exhaustive": True}
    if tier != "thorough":
        return "miri", rep
    d = os.path.join(H.ENGINE, "vmiri")
    for feats in ([], ["sm"]):
        cmd = ["cargo", "+nightly", "miri", "run", "-q"] + (["--features", ",".join(feats)] if feats else [])
        p = H.sh(cmd, cwd=d, timeout=3600, check=False, extra_env={"MIRIFLAGS": "-Zmiri-disable-isolation"})
        out = p.stdout or ""
        if p.returncode == 0:
            try:
                j = json.loads([l for l in out.splitlines() if l.startswith("{")][-1])
                rep["counts"]["miri_inputs"] = rep["counts"].get("miri_inputs", 0) + j["inputs"]
                rep["counts"]["evaluations"] = rep["counts"].get("evaluations", 0) + j["next_calls"]
            except (IndexError, ValueError):
                rep["notes"].append("miri run produced no summary line")
        elif "Undefined Behavior" in out or "error: unsupported operation" in out or "panicked" in out:
            rep["violations"].append({"key": "MIRI/" + ",".join(feats), "tag": "MIRI", "case": "vmiri " + " ".join(feats), "detail": out[-2500:], "replay": {"kind": "miri", "tag": "MIRI"}})
        else:
            rep["notes"].append("miri not usable in this sandbox run: " + out[-300:])
    return "miri", rep


def step_readprobe(pid, tier, seed):
    reps = []
    for cfg in ["u-dev", "u-rel", "f-dev", "f-rel"]:
        out = os.path.join(H.OUT, f"{pid}.readprobe.{cfg}.json")
        reps.append((f"readprobe[{cfg}]", H.run_vrt(cfg, tier, seed, "readprobe", pid, out)))
    return reps


def step_valgrind(pid, tier, seed):
    """The reduced C05 family under valgrind memcheck (unsafe build): inputs are produced natively,
    then only the compiled lexers are re-run on them under memcheck (exactly sized heap copies).
    Any invalid read makes valgrind exit with 97 -> a MEMCHECK violation."""
    reps = []
    inputs = os.path.join(H.OUT, f"{pid}.valgrind.inputs.json")
    H.run_vrt("u-rel", tier, seed, "layer2", "C05V", inputs)
    for cfg in (["u-dev", "u-rel"] if tier == "thorough" else ["u-rel"]):
        out = os.path.join(H.OUT, f"{pid}.valgrind.{cfg}.json")
        log = os.path.join(H.OUT, f"{pid}.valgrind.{cfg}.log")
        wrapper = ["valgrind", "-q", "--error-exitcode=97", f"--log-file={log}", "--num-callers=12"]
        try:
            rep = H.run_vrt(cfg, tier, seed, "rawrun", pid, out, wrapper=wrapper, extra=["--file", inputs])
        except H.MachineryError:
            txt = open(log).read() if os.path.exists(log) else ""
            if "Invalid read" in txt or "Invalid write" in txt or "uninitialised" in txt:
                rep = {"engine": f"valgrind {cfg}", "counts": {"programs": 0}, "observed": {}, "samples": [], "notes": [], "bounds": {}, "exhaustive": True,
                       "violations": [{"key": f"MEMCHECK/{cfg}", "tag": "MEMCHECK", "case": f"valgrind memcheck on the {cfg} build", "detail": txt[:3000],
                                       "replay": {"kind": "valgrind", "cfg": cfg, "tag": "MEMCHECK"}}]}
            else:
                raise
        reps.append((f"valgrind[{cfg}]", rep))
    return reps


# --------------------------------------------------------------------------- the table

L1_ASSUME = [
    "regex-syntax's parser and AST->HIR translator define the pattern language (trusted); regex-automata is NOT trusted (the reference automaton does not use it)",
    "definitions are exhaustive only inside the enumerated family F(k) + curated set (DESIGN.md 2.4)",
    "the capture hook copies the final Graph faithfully (cfg feature verif_hooks, add-only)",
]

CODE_ASSUME = ["Layer 1.5 executes the emitted code with an interpreter of the Rust subset the generators use (vgraph/src/interp.rs) against a transcription of the runtime's LexerInternal; rustc and the real runtime are bound by Layer 2 on the compiled sub-corpus; definitions whose output leaves the subset (callbacks) are counted as not interpretable, never judged"]

PROPS = {}


def prop(pid, **kw):
    PROPS[pid] = kw


prop("C01", level="model_checking",
     technique="explicit-state product exploration (captured logos Graph x independent reference automaton), all inputs of every length per definition, over an enumerated definition family",
     text="Exhaustive BFS of the synchronous product of the real pipeline's final Graph with an independently built reference automaton decides longest-match/priority outcome equality for every input of every length, for every definition of a systematically enumerated family; tags OUTCOME, EARLY-STOP.",
     note="Trusted: regex-syntax parser/translator, rustc, harness code. Bounds: definition family F(k)+curated; inputs unbounded at the graph level.",
     design_ref="5 C01, 3", steps=[step_selfcheck, step_layer1, step_code, step_layer2(["u-dev"], ["u-dev", "u-rel", "f-dev", "f-rel"]), step_bind, step_vderive("sweep", ["tc-u-rel", "sm-u-dev", "tc-f-dev"], ["tc-u-rel", "sm-u-rel", "tc-f-rel", "sm-f-rel", "tc-u-dev", "sm-u-dev"])], assumptions=L1_ASSUME + CODE_ASSUME)
prop("C02", level="model_checking",
     technique="explicit-state product exploration (Graph x reference automaton): error fatal offset, stop-consuming point",
     text="The same product exploration decides, for every input of every length, that a match attempt stops exactly at the first symbol after which no pattern can match any extension (tags ERRSPAN, EARLY-STOP, OVERREAD).",
     note="Same trusted base as C01. The error VALUE (Default / error callback / pattern callback) is checked through the real derive (vderive c13).", design_ref="5 C02, 3", steps=[step_selfcheck, step_layer1, step_code, step_layer2(["u-dev"], ["u-dev", "u-rel", "f-dev", "f-rel"]), step_vderive("c13", ["tc-u-dev"], ["tc-u-dev", "sm-u-dev", "tc-f-rel"]), step_vderive("sweep", ["tc-u-rel", "sm-u-dev", "tc-f-dev"], ["tc-u-rel", "sm-u-rel", "tc-f-rel", "sm-f-rel", "tc-u-dev", "sm-u-dev"])], assumptions=L1_ASSUME + CODE_ASSUME)
prop("C03", level="model_checking",
     technique="structural invariants on every captured Graph + nullable-pattern rejection over the enumerated family; tiling of compiled and interpreted lexers on model traces; full-alphabet sweep (every input of <= 3 bytes, every scalar value) through universal lexers",
     text="Every captured graph is checked for the invariants that make any walk terminate and tile (root records nothing, EOI edges lead to terminal late-accept states, every edge consumes one byte), and every enumerated definition with a pattern that can match the empty string (decided on the reference automaton) must be rejected.",
     note="Same trusted base as C01.", design_ref="5 C03", steps=[step_selfcheck, step_layer1, step_code, step_layer2(["u-dev"], ["u-dev", "u-rel", "f-dev", "f-rel"]), step_vderive("sweep", ["tc-u-rel", "sm-u-dev", "tc-f-dev"], ["tc-u-rel", "sm-u-rel", "tc-f-rel", "sm-f-rel", "tc-u-dev", "sm-u-dev"])], assumptions=L1_ASSUME + CODE_ASSUME)
prop("C07", level="model_checking",
     technique="explicit-state product exploration: at every reachable product state the partial lexer's commit/ask-for-more decision is compared with reference determinedness",
     text="For every prefix of every input (every reachable product state at a legal buffer end) the real return-None condition must coincide with 'some continuation changes the outcome' computed on the reference automaton (tags PARTIAL-UNSOUND, PARTIAL-LATE).",
     note="Same trusted base as C01.", design_ref="5 C07", steps=[step_selfcheck, step_layer1, step_code, step_layer2(["u-dev"], ["u-dev", "u-rel", "f-dev", "f-rel"])], assumptions=L1_ASSUME + CODE_ASSUME)
prop("C08", level="model_checking",
     technique="exhaustive exploration of the reference subset automaton for top-priority ties, compared with the derive's Disambiguation errors over all enumerated pattern pairs/triples x priority schemes",
     text="conflict(reference) <=> Disambiguation(derive), with the same set of named patterns, on every definition of the family that is not rejected for another reason.",
     note="Same trusted base as C01. Domain: definitions not already rejected for nullable/start-look-behind.", design_ref="5 C08", steps=[step_selfcheck, step_layer1, step_vgraph("c08")], assumptions=L1_ASSUME)
prop("C09", level="model_checking",
     technique="per enumerated pattern: captured leaf priority vs the documented rule computed on an independently built HIR, cross-checked by 0/1-BFS shortest match on the reference automaton; token-vs-regex consequence by running the captured graph",
     text="For every pattern of the family the priority logos computed equals the documented rule; literal tokens are never beaten on their own text by a default-priority regex.",
     note="Same trusted base as C01. Exact-value domain: str patterns and byte patterns whose non-ASCII bytes occur only in classes.", design_ref="5 C09", steps=[step_selfcheck, step_layer1, step_vgraph("c11"), step_vgraph("c10"), step_layer2(["u-dev"], ["u-dev", "u-rel"])], assumptions=L1_ASSUME)

prop("C10", level="model_checking", engine="vgraph",
     technique="language equivalence by explicit-state product exploration between the captured graph of each literal definition and a reference built from the literal's bytes / per-character case-fold classes, over all literals up to a length bound",
     text="For every literal of length <= L over an alphabet with every regex metacharacter, cased non-ASCII characters and arbitrary bytes, in token / regex / skip form with and without ignore(case): exact language equivalence for all inputs, and leaf count / kinds / priorities unchanged by ignore(case).",
     note="Same trusted base as C01; the reference never uses regex_syntax::escape.", design_ref="5 C10", steps=[step_selfcheck, step_vgraph("c10"), step_layer2(["u-dev"], ["u-dev", "f-rel"])], assumptions=L1_ASSUME)
prop("C11", level="model_checking", engine="vgraph",
     technique="language equivalence by explicit-state product exploration between the captured graph and a reference built from the harness's own textual inlining, over a subpattern family",
     text="Every definition of the subpattern family (bodies with alternations / inline flags / byte strings, references at start / middle / end / under repetition, one and two levels) is equivalent for all inputs to the reference built from scoped textual inclusion; undefined and forward references must be compile errors.",
     note="Same trusted base as C01.", design_ref="5 C11", steps=[step_selfcheck, step_vgraph("c11"), step_layer2(["u-dev"], ["u-dev", "f-rel"])], assumptions=L1_ASSUME)
prop("C16", level="model_checking", engine="vgraph",
     technique="deviation-bounded schedule exploration: every hash-iteration site is a seam owned by the explorer; every seam call x every (bounded set of) permutation, single and paired deviations, both code generators; outputs must be byte-identical",
     text="The only nondeterminism (hash-container iteration order) is put behind seams; all single deviations (and pairs on small definitions) are executed on the real generate() and must leave the generated code and the graph byte-identical. A labelled sample of real hash seeds (fresh threads) supplements it.",
     note="Trusted: the seam list covers every hash-container-to-sequence conversion in logos-codegen (grep-audited, DESIGN.md 2.2); a future iteration site without a seam is only covered by the seed sample.", design_ref="5 C16", steps=[step_vgraph("c16"), step_cli16],
     assumptions=["seams sit at every place where a hash container is turned into a sequence (audited by grep)", "permutation sets for long lists are reduced as stated in bounds"])
prop("C18", level="exploration", engine="vgraph",
     technique="exhaustive enumeration of all permutations of named arguments / #[logos] items, and of every ACCEPTED attribute token sequence up to length 4/5 found by exhaustive token-sequence exploration; real generate() output compared with the canonical order",
     text="All permutations of every subset of named arguments for #[token], #[regex], skip(...), and all dependency-respecting permutations of up to 5 items of a combined #[logos(...)] attribute produce the same token stream as the canonical order.",
     note="Equality of generate()'s token string is stronger than lexer equivalence; at most one skip per combined attribute (two skips renumber leaves).", design_ref="5 C18", steps=[step_vgraph("c18"), step_vgraph("c19seq")], assumptions=[])
prop("C19", level="exploration", engine="vgraph",
     technique="exhaustive enumeration of an attribute grammar (all single items and all pairs) and of ALL attribute token sequences up to length 4/5 through catch_unwind(generate), and (single items + same-key pairs, enum names colliding with generated items) through rustc with the real proc-macro; must-reject predicates from the reference",
     text="Every single item and every pair of items of the attribute grammar is run through the library entry point: no panic, and every definition carrying a must-reject predicate (nullable, start look-behind, unsupported feature, greedy dot anywhere, undefined subpattern, bad variant shape) yields compile_error!.",
     note="Two execution paths: the library entry point under catch_unwind, and rustc on the stable toolchain with the real proc-macro (span operations differ there).", design_ref="5 C19", steps=[step_vgraph("c19"), step_vgraph("c19seq"), step_vgraph("c13cb"), step_vgraph("c19big"), step_layer1, step_probe, step_names], assumptions=["the derive cannot type-check user-supplied fragments; rustc errors inside those are not counted"])

L2_ASSUME = L1_ASSUME + ["Layer 2 compiles the library expansion (logos_codegen::generate) of a compiled sub-corpus; the proc-macro wrapper is a one-line call of the same function (bound by vderive)",
                         "inputs at Layer 2 are bounded: all strings up to L symbols over a representative alphabet + transition cover x 256 + loop inputs"]
prop("C04", level="model_checking", engine="vgraph+vrt",
     technique="product of each accepted str-mode pattern's reference automaton with a UTF-8 validity DFA (acceptance side), plus numeric boundary checks of every span observed on compiled lexers over bounded-exhaustive valid UTF-8 inputs",
     text="(a) no accepted str-mode pattern or subpattern has a reachable accepting configuration outside 'between characters' (all strings); (b) every span boundary observed through span()/slice()/remainder() on the compiled lexers is a char boundary, checked numerically before slicing, for all enumerated inputs with 1-4 byte characters.",
     note="Same trusted base as C01; std's is_char_boundary is the boundary oracle.", design_ref="5 C04",
     steps=[step_selfcheck, step_layer1, step_vgraph("c11"), step_code, step_layer2(["u-dev", "f-dev"], ["u-dev", "u-rel", "f-dev", "f-rel"]), step_vderive("sweep", ["tc-u-rel", "sm-u-dev", "tc-f-dev"], ["tc-u-rel", "sm-u-rel", "tc-f-rel", "sm-f-rel", "tc-u-dev", "sm-u-dev"])], assumptions=L2_ASSUME + CODE_ASSUME)
prop("C05", level="exploration", engine="vrt",
     technique="exhaustive enumeration of Source::read over every (len, offset, chunk size) incl. wrap-around offsets, and of lexing inputs of every length around the 8-byte batch in exactly sized heap allocations, under valgrind memcheck; default vs forbid_unsafe builds x dev/release compared through the common reference",
     text="Source::read returns Some(bytes) iff offset+N <= len in unbounded arithmetic for every enumerated case in all four builds; every compiled lexer run on exactly sized heap inputs is free of invalid reads under memcheck; unsafe and forbid_unsafe builds (dev and release) produce the reference's transcript with no panic.",
     note="valgrind only makes an out-of-bounds access observable; the deciding step is the exhaustive enumeration. Transcript equality between builds is established through equality with the same reference lexer.", design_ref="5 C05",
     steps=[step_readprobe, step_layer2(["u-dev", "u-rel", "f-dev", "f-rel"], ["u-dev", "u-rel", "f-dev", "f-rel"], crash_tag="CRASH"), step_valgrind, step_miri, step_code],
     rules=["Source::read: every len 0..=40 x offset {0..=len+2, usize::MAX-40..=usize::MAX, 2^63+-1, ...} x chunk size {u8,1,2,3,4,7,8,9,16,32} on str and [u8] (non-trivial = end within +-1 of len or overflowing); lexing: all strings <= L symbols + transition cover x 256 + loop inputs of every length 0..=26 on exactly sized heap copies (non-trivial = expected stream has >= 2 items, an error or a skip)"],
     assumptions=L2_ASSUME + ["memcheck detects reads past an exactly sized heap block (verified in DESIGN calibration)"])
prop("C06", level="exploration", engine="vrt",
     technique="exhaustive differential replay: both code generators' compiled output in one process on every enumerated input; state-machine stack bound by a length ladder on a small stack plus a structural check of the emitted code",
     text="For every compiled definition and every enumerated input the tail-call and state-machine lexers produce identical items, spans and end positions; the state-machine output contains no per-state functions (structural), and runs inputs up to millions of bytes on a 64 KiB stack.",
     note="Callback invocation order is compared in vderive (real derive).", design_ref="5 C06",
     steps=[step_vgraph("c06struct"), step_code, step_layer2(["u-dev"], ["u-dev", "u-rel", "f-dev", "f-rel"]), step_stack, step_vderive("c13", ["tc-u-dev", "sm-u-dev"], ["tc-u-dev", "sm-u-dev", "tc-f-rel", "sm-f-rel"], compare_digests=True)],
     rules=["all strings <= L symbols over the representative alphabet + transition cover x 256 + loop inputs, per compiled definition, both back ends in one process; non-trivial = expected stream has >= 2 items, an error or a skip"],
     assumptions=L2_ASSUME)
prop("C12", level="exploration", engine="vgraph+vrt",
     technique="exhaustive differential replay of each definition compiled in str mode and in utf8=false mode on every enumerated valid UTF-8 input; product exploration of both graphs against the same reference over valid UTF-8 paths; acceptance of byte-only patterns; full-alphabet sweep (every Unicode scalar value) through str / utf8 = false twins built by the real derive",
     text="Ok tokens and spans are equal and the sets of bytes covered by errors are equal between the two modes for every enumerated valid UTF-8 input; byte-only patterns are rejected in str mode and accepted with utf8 = false.",
     note="Same trusted base as C01.", design_ref="5 C12",
     steps=[step_vgraph("c12"), step_layer2(["u-dev"], ["u-dev", "u-rel", "f-dev", "f-rel"]),
            # every Unicode scalar value through str / utf8 = false twins built by the real derive
            step_vderive("sweep", ["tc-u-rel"], ["tc-u-rel", "sm-u-rel", "tc-f-rel"])],
     rules=["every str-mode definition of the compiled sub-corpus has a utf8=false twin; inputs: all valid UTF-8 strings <= L symbols + transition cover + loop inputs; non-trivial = expected stream has >= 2 items, an error or a skip"],
     assumptions=L2_ASSUME)
prop("C20", level="model_checking", engine="vgraph+vrt",
     technique="structural invariants of every captured graph (determinism, one byte per edge) + exhaustive read-trace monitoring of compiled lexers (read-trace hook) over bounded-exhaustive and adversarial inputs",
     text="Every graph edge consumes exactly one byte and states are deterministic; on every replayed input (both back ends, trace build) read offsets never decrease within an attempt, reads are bounded by 2 x bytes examined + 6, and each attempt starts at the end of the previous item or skip.",
     note="The read-trace hook records every LexerInternal::read, next and trivia call (cfg feature verif_hooks).", design_ref="5 C20",
     steps=[step_selfcheck, step_layer1, step_code, step_layer2(["t-dev"], ["t-dev"]), step_vderive("c20", ["tc-u-dev-t", "sm-u-dev-t"], ["tc-u-dev-t", "sm-u-dev-t", "tc-f-dev-t", "sm-f-dev-t"])], assumptions=L2_ASSUME)

prop("C13", level="exploration", engine="vderive",
     technique="exhaustive enumeration of all inputs up to a length bound through enums compiled with the REAL derive, carrying callbacks of every documented return type; item streams, spans and callback invocation logs compared with a hand-written reference + the documented table; tail-call vs state-machine transcripts compared by digest",
     text="Every documented callback return type (named function and closure forms, skip callbacks, any-token forms, with and without an error callback) produces exactly the documented item for every enumerated input; callbacks run once per winning match with span()/slice() equal to the match; Skip from a callback is indistinguishable from a skip pattern (twin enum); bumping inside a callback extends the item.",
     note="The reference lexer for these enums is hand-written (first letter + digits), independent of vcore and of logos.", design_ref="5 C13",
     steps=[step_vgraph("c13cb"), step_vderive("c13", ["tc-u-dev", "sm-u-dev"], ["tc-u-dev", "sm-u-dev", "tc-f-dev", "sm-f-dev", "tc-u-rel", "sm-u-rel", "tc-f-rel", "sm-f-rel"], compare_digests=True)], assumptions=["callback decisions are pure functions of the matched text"])
prop("C14", level="model_checking", engine="vderive",
     technique="breadth-first exploration of all histories of public Lexer API calls on real Lexer objects and on the SpannedIter wrapper, de-duplicated on the canonical observable state plus the history fact 'a next() answered None'; differential oracle against a fresh lexer on the remainder; every provided Iterator method against manual iteration in every state",
     text="From every reachable state (definition, span, mode, extras) of two definition pairs over 14 sources: slice()/remainder() agree with the source, next() equals a fresh lexer of the active definition and mode on the remainder, clones are independent, morph preserves position / mode / extras and is undone by morphing back, spanned() equals manual iteration.",
     note="States are real Lexer objects; the state key is exact because those fields are the whole Lexer.", design_ref="5 C14",
     steps=[step_vderive("c14", ["tc-u-dev", "sm-u-dev"], ["tc-u-dev", "sm-u-dev", "tc-f-dev", "sm-f-dev", "tc-u-rel", "sm-u-rel", "tc-f-rel", "sm-f-rel"])], assumptions=["bump is only offered when in range (its failure behaviour is C15)"])
prop("C15", level="exploration", engine="vderive",
     technique="exhaustive boundary enumeration of (source, position, n) incl. wrap-around values, with catch_unwind and numeric span validation before any slicing, in dev/release x default/forbid_unsafe builds",
     text="bump(n) returns normally iff end+n <= len (unbounded arithmetic) and lands on a boundary, panics otherwise, and in both cases leaves a span that is a valid range of the source.",
     note="Panics are caught with catch_unwind; slices are only requested after the span has been validated numerically.", design_ref="5 C15",
     steps=[step_vderive("c15", ["tc-u-dev", "tc-u-rel", "tc-f-dev", "tc-f-rel"], ["tc-u-dev", "tc-u-rel", "tc-f-dev", "tc-f-rel", "sm-u-rel"]),
            # bumps made from inside callbacks (enums M, MB, MK of the callback sweep): spans stay valid ranges
            step_vderive("c13", ["tc-u-dev", "sm-u-dev"], ["tc-u-dev", "sm-u-dev", "tc-u-rel", "sm-u-rel"])], assumptions=[])

prop("C17", level="exploration", engine="vgraph + real logos-cli binary",
     technique="exhaustive enumeration of an enum-source grammar through the real logos-cli binary against an independent syn-based stripping oracle + generate(); breadth-first exploration of all write/--check/edit histories up to depth 4 against a four-state file model",
     text="For every enumerated enum source the CLI's output equals (as a token stream) the input enum with exactly the logos/token/regex attributes and the Logos derive removed, followed by the derive's implementation, and parses as a Rust file; for every history of write / --check / make-stale / CRLF / delete up to depth 4, --check succeeds iff the file holds that output modulo line endings and never modifies it.",
     note="The oracle for stripping is written against syn independently of logos_codegen::strip_attributes; generate() itself is the same library function the CLI calls.", design_ref="5 C17",
     steps=[step_cli], assumptions=["--format is exercised when rustfmt is on PATH (it is in this sandbox); its output is compared with the harness's own call of rustfmt"])

ORDER = [f"C{n:02d}" for n in range(1, 21)]

NOT_YET = "check under construction in this round - not claimed yet"


# --------------------------------------------------------------------------- runner


def coverage_for(level, tot, tier):
    c = tot["counts"]
    cov = {"programs": c.get("programs", 0), "exhaustive": bool(tot["exhaustive"]), "bounds": tot["bounds"],
           "counts": c, "observed_outcomes": tot["observed"], "steps": tot["steps"], "notes": tot["notes"][:12]}
    samples = tot["samples"][:10] or [{"note": "no sample recorded"}]
    if level == "model_checking":
        cov.update({"states": c.get("states", 0), "transitions": c.get("transitions", 0),
                    "traces_validated_against_impl": c.get("traces_validated_against_impl", 0), "samples": samples})
    else:
        cov.update({"evaluations": c.get("evaluations", 0), "distinct_nontrivial": c.get("distinct_nontrivial", 0),
                    "rule": tot["bounds"].get("rule", ""), "samples": samples})
    return cov


def run_check(pid, tier, seed):
    if pid not in PROPS:
        print(f"property {pid} has no check (see MANIFEST.json not_applicable)")
        return 2
    cfg = PROPS[pid]
    t0 = time.time()
    reports = []
    machinery = None
    for st in cfg["steps"]:
        try:
            r = st(pid, tier, seed)
        except H.MachineryError as e:
            # a later engine failed: violations already found by earlier steps are still verdicts
            machinery = e
            break
        reports.extend(r if isinstance(r, list) else [r])
    if machinery is not None and not any(rep.get("violations") for _, rep in reports):
        raise machinery
    tot = H.merge_reports(reports)
    for s in cfg.get("rules", []):
        tot["bounds"]["rule"] = s
    seen_keys = set()
    uniq = []
    for v in tot["violations"]:
        if v["key"] not in seen_keys:
            seen_keys.add(v["key"])
            uniq.append(v)
    tot["violations"] = uniq
    buckets, new = H.split_known(pid, tot["violations"])
    for e, vs in buckets:
        if vs:
            print(f"KNOWN-FINDING: property={pid} {e['what']} ({len(vs)} cases this run, e.g. {vs[0]['case'][:120]})")
    # new violations: confirm the first by replaying twice, then report
    paths = []
    if new:
        for n, v in enumerate(new[:25]):
            paths.append((H.write_replay(pid, n, v), v))
        first_path = paths[0][0]
        ok = confirm_replay(first_path)
        if ok is False:
            raise H.MachineryError(f"violation did not reproduce identically on replay: {first_path}")
    cov = coverage_for(cfg["level"], tot, tier)
    # vacuity guard: a check that explored nothing is broken machinery, not a pass
    for name, rep in reports:
        c = rep.get("counts", {})
        if not rep.get("violations") and not any(c.get(k, 0) for k in ("evaluations", "states", "programs", "traces_validated_against_impl", "utf8_dfa_cases", "miri_inputs")) and name != "miri":
            raise H.MachineryError(f"step {name} of {pid} explored nothing (vacuous run)")
    cov["known_findings_seen"] = [{"what": e["what"], "cases": len(vs)} for e, vs in buckets if vs]
    H.write_evidence(pid, tier, seed, cfg["level"], cov, cfg.get("assumptions", []), time.time() - t0, len(new))
    for n, (p, v) in enumerate(paths):
        print(f"VIOLATION property={pid} replay={p}")
        if n < 8:
            print(f"  {v['tag']}: {v['case'][:200]} :: {v['detail'][:300]}")
    if new:
        tags = {}
        for v in new:
            tags[v["tag"]] = tags.get(v["tag"], 0) + 1
        print(f"  violations by tag: {tags}")
    if len(new) > len(paths):
        print(f"  ... and {len(new) - len(paths)} more violations (not written)")
    if machinery is not None:
        print(f"NOTE: a later step failed after violations had been found: {str(machinery)[:300]}")
    c = tot["counts"]
    print(f"{pid} [{tier}] {'FAIL' if new else 'ok'}: programs={c.get('programs', 0)} states={c.get('states', 0)} transitions={c.get('transitions', 0)} "
          f"evaluations={c.get('evaluations', 0)} traces={c.get('traces_validated_against_impl', 0)} violations={len(new)} wall={time.time() - t0:.1f}s")
    return 1 if new else 0


def replay_once(path):
    with open(path) as f:
        rec = json.load(f)
    kind = (rec.get("replay") or {}).get("kind")
    H.build_tools()
    out = os.path.join(H.OUT, "replay.json")
    if kind in ("layer1", "tokens", "c16", "c18", "c19", "c13cb", "code"):
        rep = H.run_engine([H.tool("vgraph"), "replay", "--prop", rec["property"], "--file", path, "--out", out], out)
    elif kind in ("layer2", "readprobe"):
        tier = "quick"
        rep = H.run_vrt("t-dev" if rec["property"] == "C20" else "u-dev", tier, 0, "replay", rec["property"], out, extra=["--file", path])
        if any("not in the compiled corpus" in n for n in rep.get("notes", [])):
            rep = rerun_and_filter(rec)
    elif kind == "vderive":
        rep = H.run_vderive("tc-u-dev-t" if rec["property"] == "C20" else "tc-u-dev", "replay", rec["property"], "quick", out, extra=["--file", path])
    else:
        rep = rerun_and_filter(rec)
    # tags only: a defect that itself depends on hash order may show a different detail text each time
    return sorted({(v["tag"], "") for v in rep["violations"]})


def rerun_and_filter(rec):
    """Universal replayer: re-run the property's quick check steps and keep the violation with the same key."""
    pid = rec["property"]
    vs = []
    same_tag = []
    for st in PROPS[pid]["steps"]:
        try:
            r = st(pid, "quick", 0)
        except H.MachineryError:
            continue
        for _, rep in (r if isinstance(r, list) else [r]):
            vs.extend(v for v in rep.get("violations", []) if v.get("key") == rec.get("key"))
            same_tag.extend(v for v in rep.get("violations", []) if v.get("tag") == rec.get("tag"))
    # a defect whose victim depends on scheduling (state left behind on a worker thread) hits another
    # definition in every run: the same KIND of violation in the full re-run confirms it
    return {"violations": (vs or same_tag)[:1]}


def confirm_replay(path):
    """Replay the recorded case twice: identical observations are required before a violation is
    reported. A case that only fails in the context of the whole run (state leaking between
    definitions, e.g. a cache) is confirmed by re-running the property's steps and finding the
    same key again."""
    a = replay_once(path)
    if a is None:
        return None
    b = replay_once(path)
    if a == b and len(a) > 0:
        return True
    with open(path) as f:
        rec = json.load(f)
    again = rerun_and_filter(rec)
    if again["violations"]:
        print(f"NOTE: {os.path.basename(path)} does not fail in isolation but fails again in the full run (history-dependent)")
        return True
    return False


def replay(path):
    a = replay_once(path)
    if a is None:
        print("no replayer for this record kind")
        return 2
    b = replay_once(path)
    if a != b:
        print("MACHINERY-ERROR: replay is not deterministic")
        return 2
    with open(path) as f:
        rec = json.load(f)
    if a:
        for tag, d in a:
            print(f"reproduced {tag}: {d[:400]}")
        print(f"VIOLATION property={rec['property']} replay={path}")
        return 1
    print("not reproduced on the current tree")
    return 0


def setup():
    H.build_tools()
    for cfg in H.VRT_CFGS:
        H.ensure_vrt(cfg, "quick", 0)
    for cfg in ["tc-u-dev", "sm-u-dev", "tc-u-rel", "tc-f-dev", "tc-f-rel"]:
        H.ensure_vderive(cfg)
    H.ensure_cli()
    return 0


def write_manifest():
    props = {}
    with open(os.path.join(H.ROOT, "properties.jsonl")) as f:
        for l in f:
            p = json.loads(l)
            props[p["id"]] = p
    checks = []
    for pid in ORDER:
        if pid not in PROPS:
            continue
        c = PROPS[pid]
        checks.append({
            "property_id": pid,
            "quick_cmd": f"./check {pid} --tier quick",
            "thorough_cmd": f"./check {pid} --tier thorough",
            "evidence_file": f"/verif/evidence/{pid}.json",
            "replay_cmd_template": "./check --replay {path}",
            "engine": c.get("engine", "vgraph"),
            "level_claimed": {"category": c["level"], "text": c["text"], "design_ref": "DESIGN.md " + c["design_ref"]},
            "level_note": c["note"],
            "technique": c["technique"],
        })
    na = [{"property_id": pid, "reason": NOT_YET} for pid in ORDER if pid not in PROPS]
    m = {
        "version": 1,
        "setup_cmd": "./check --setup",
        "hooks": {
            "guard": "cargo feature verif_hooks (logos-codegen and logos)",
            "enable": "engines depend on /repo/logos-codegen and /repo by path with features = [\"verif_hooks\"]",
            "baseline_off_cmd": "cd /repo && cargo test --workspace --no-fail-fast --offline",
            "source_commits": ["c9cc40e", "3fbd0f5", "36f9ccf", "18e7083", "02a1c71", "e31bf22", "dfd4400"],
            "add_only": True,
        },
        "engines": [
            {"name": "vcore", "path": "engine/vcore", "serves_properties": ORDER, "kind_free_text": "reference semantics (own NFA/subset automaton from regex-syntax HIR), product explorer, graph interpreter, definition enumerator"},
            {"name": "vgraph", "path": "engine/vgraph", "serves_properties": [p for p in ORDER if p in PROPS], "kind_free_text": "runs the real logos_codegen::generate on every enumerated definition, explores the captured graph against the reference"},
        ],
        "checks": checks,
        "not_applicable": na,
        "notes": "All checks rebuild the engines against /repo's working tree (cargo path dependencies) before running. See DESIGN.md.",
    }
    with open(os.path.join(H.ROOT, "MANIFEST.json"), "w") as f:
        json.dump(m, f, indent=1)
    print(f"MANIFEST.json: {len(checks)} checks, {len(na)} not yet claimed")
