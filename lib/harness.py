"""Plumbing shared by all checks: building engines from /repo's working tree, running them,
known findings, replays, evidence."""
import json, os, re, subprocess, sys, time, hashlib, shutil

ROOT = os.path.dirname(os.path.dirname(os.path.abspath(__file__)))
ENGINE = os.path.join(ROOT, "engine")
OUT = os.path.join(ROOT, "out")
EVIDENCE = os.path.join(ROOT, "evidence")
REPLAYS = os.path.join(ROOT, "replays")
REPO = "/repo"


class MachineryError(Exception):
    pass


def env():
    e = dict(os.environ)
    e["CARGO_NET_OFFLINE"] = "true"
    e.setdefault("CARGO_TERM_COLOR", "never")
    e.pop("RUSTFLAGS", None)
    return e


def sh(cmd, cwd=None, timeout=None, check=True, capture=True, extra_env=None):
    e = env()
    if extra_env:
        e.update(extra_env)
    try:
        p = subprocess.run(cmd, cwd=cwd, env=e, timeout=timeout, stdout=subprocess.PIPE if capture else None,
                           stderr=subprocess.STDOUT if capture else None, text=True, errors="replace")
    except subprocess.TimeoutExpired:
        raise MachineryError(f"timeout after {timeout}s: {' '.join(cmd)[:200]}")
    if check and p.returncode != 0:
        tail = (p.stdout or "")[-4000:]
        raise MachineryError(f"command failed ({p.returncode}): {' '.join(cmd)[:300]}\n{tail}")
    return p


_built = set()


def build_tools():
    """(Re)build the engine workspace against /repo's current working tree."""
    if "tools" in _built:
        return
    sh(["cargo", "build", "--release", "--offline", "-q"], cwd=ENGINE, timeout=1800)
    _built.add("tools")


def tool(name):
    return os.path.join(ENGINE, "target", "release", name)


def run_engine(cmd, out_json, timeout=2400, cwd=None, extra_env=None, crash_tag=None):
    """Run an engine that writes a vcore::report::Report to out_json.
    crash_tag: for memory-safety checks on the unsafe build, death by a signal IS the symptom being
    looked for; it is then reported as a violation with this tag instead of a machinery error."""
    os.makedirs(OUT, exist_ok=True)
    if os.path.exists(out_json):
        os.remove(out_json)
    p = sh(cmd, cwd=cwd, timeout=timeout, check=False, extra_env=extra_env)
    if p.returncode < 0 and crash_tag:
        return {"engine": " ".join(cmd[:2]), "counts": {"evaluations": 1}, "observed": {}, "samples": [], "notes": [], "bounds": {}, "exhaustive": False,
                "violations": [{"key": f"{crash_tag}/{os.path.basename(cmd[0])}", "tag": crash_tag, "case": " ".join(cmd)[:300],
                                "detail": f"the process was killed by signal {-p.returncode} while running the default (unsafe) build: {(p.stdout or '')[-600:]}",
                                "replay": {"kind": "command", "argv": cmd, "tag": crash_tag}}]}
    if p.returncode != 0 or not os.path.exists(out_json):
        raise MachineryError(f"engine failed ({p.returncode}): {' '.join(cmd)[:300]}\n{(p.stdout or '')[-3000:]}")
    with open(out_json) as f:
        return json.load(f)


def load_known():
    p = os.path.join(ROOT, "known_findings.json")
    if not os.path.exists(p):
        return {"open": [], "fixed": []}
    with open(p) as f:
        return json.load(f)


def split_known(pid, violations):
    """-> (known: list of (entry, [violations]), new: [violations])"""
    known = load_known()
    opens = [e for e in known.get("open", []) if e["property"] == pid]
    buckets = [(e, []) for e in opens]
    new = []
    for v in violations:
        for e, b in buckets:
            if re.search(e["match"], v["key"]):
                b.append(v)
                break
        else:
            new.append(v)
    return buckets, new


def write_replay(pid, n, violation):
    os.makedirs(REPLAYS, exist_ok=True)
    path = os.path.join(REPLAYS, f"{pid}-{n}.json")
    rec = {"property": pid, "tag": violation.get("tag"), "key": violation.get("key"), "case": violation.get("case"),
           "detail": violation.get("detail"), "replay": violation.get("replay")}
    with open(path, "w") as f:
        json.dump(rec, f, indent=1, ensure_ascii=False)
    return path


def write_evidence(pid, tier, seed, level, coverage, assumptions, wall_s, violations):
    os.makedirs(EVIDENCE, exist_ok=True)
    ev = {"property_id": pid, "tier": tier, "seed": seed, "level": level, "coverage": coverage,
          "assumptions": assumptions, "wall_s": round(wall_s, 2), "violations": violations}
    with open(os.path.join(EVIDENCE, f"{pid}.json"), "w") as f:
        json.dump(ev, f, indent=1, ensure_ascii=False)
    return ev


def merge_reports(reports):
    """Sum counts of several engine reports; keep per-step detail."""
    tot = {"counts": {}, "observed": {}, "violations": [], "samples": [], "notes": [], "bounds": {}, "exhaustive": True, "steps": []}
    groups = {}
    for name, r in reports:
        base = name.split("[")[0]
        for k, v in r.get("counts", {}).items():
            if k == "distinct_nontrivial":
                # the same cases repeated under another build configuration are not new distinct cases
                groups.setdefault(base, 0)
                groups[base] = max(groups[base], v)
                continue
            tot["counts"][k] = tot["counts"].get(k, 0) + v
        for k, v in r.get("observed", {}).items():
            tot["observed"][f"{name}:{k}"] = v
        tot["violations"].extend(r.get("violations", []))
        for s in r.get("samples", [])[:4]:
            tot["samples"].append({"step": name, **s} if isinstance(s, dict) else {"step": name, "sample": s})
        tot["notes"].extend(f"{name}: {n}" for n in r.get("notes", [])[:6])
        for k, v in r.get("bounds", {}).items():
            tot["bounds"][f"{name}:{k}"] = v
        tot["exhaustive"] = tot["exhaustive"] and r.get("exhaustive", True)
        tot["steps"].append({"step": name, "engine": r.get("engine"), "counts": r.get("counts", {})})
    if groups:
        tot["counts"]["distinct_nontrivial"] = sum(groups.values())
    return tot


VRT = os.path.join(ENGINE, "vrt")
VRT_CFGS = {
    # name: (release?, features)
    "u-dev": (False, []),
    "u-rel": (True, []),
    "f-dev": (False, ["forbid_unsafe"]),
    "f-rel": (True, ["forbid_unsafe"]),
    "t-dev": (False, ["trace"]),
}
_gen_done = set()


def gen_dir(tier):
    return os.path.join(VRT, f"gen-{tier}")


def ensure_gen(tier, seed):
    """Regenerate the compiled sub-corpus from /repo's current tree (files only rewritten when changed)."""
    if tier in _gen_done:
        return
    build_tools()
    sh([tool("vgraph"), "gen", "--tier", tier, "--seed", str(seed), "--out", gen_dir(tier)], timeout=1800)
    _gen_done.add(tier)


def ensure_vrt(cfg, tier, seed):
    ensure_gen(tier, seed)
    key = f"vrt-{cfg}-{tier}"
    rel, feats = VRT_CFGS[cfg]
    tdir = os.path.join(VRT, "target", f"{tier}-{cfg}")
    if key not in _built:
        cmd = ["cargo", "build", "-p", "vrt", "--offline", "-q", "--target-dir", tdir]
        if rel:
            cmd.append("--release")
        if feats:
            cmd += ["--features", ",".join(feats)]
        sh(cmd, cwd=VRT, timeout=3600, extra_env={"VRT_GEN_DIR": gen_dir(tier)})
        _built.add(key)
    return os.path.join(tdir, "release" if rel else "debug", "vrt")


def run_vrt(cfg, tier, seed, cmd, prop, out_json, extra=None, wrapper=None, timeout=7200, extra_env=None, crash_tag=None):
    exe = ensure_vrt(cfg, tier, seed)
    argv = (wrapper or []) + [exe, cmd, "--prop", prop, "--tier", tier, "--seed", str(seed), "--corpus", os.path.join(gen_dir(tier), "corpus.json"), "--out", out_json] + (extra or [])
    return run_engine(argv, out_json, timeout=timeout, extra_env=extra_env, crash_tag=crash_tag)


VDERIVE = os.path.join(ENGINE, "vderive")


def ensure_vderive(cfg):
    """cfg like 'tc-u-dev', 'sm-f-rel'"""
    be, rt, prof = cfg.split("-")[:3]
    tdir = os.path.join(VDERIVE, "target", cfg)
    key = f"vderive-{cfg}"
    if key not in _built:
        feats = []
        if be == "sm":
            feats.append("sm")
        if rt == "f":
            feats.append("forbid_unsafe")
        if cfg.endswith("-t"):
            feats.append("trace")
        cmd = ["cargo", "build", "--offline", "-q", "--target-dir", tdir]
        if prof == "rel":
            cmd.append("--release")
        if feats:
            cmd += ["--features", ",".join(feats)]
        sh(cmd, cwd=VDERIVE, timeout=3600)
        _built.add(key)
    return os.path.join(tdir, "release" if prof == "rel" else "debug", "vderive")


def run_vderive(cfg, cmd, prop, tier, out_json, extra=None):
    try:
        exe = ensure_vderive(cfg)
    except MachineryError as e:
        # vderive is a crate of VALID definitions compiled through the real #[derive(Logos)] of /repo's
        # working tree; it builds on the unchanged tree (setup / every earlier run). If it stops
        # compiling, the derive no longer produces a working implementation for some of them: that is
        # a finding about the tree, not a defect of the machinery - provided the errors come from the
        # derive's output / diagnostics and logos itself still builds.
        msg = str(e)
        probe = sh(["cargo", "build", "--offline", "-q", "-p", "logos", "--target-dir", os.path.join(VDERIVE, "target", cfg)], cwd=VDERIVE, timeout=3600, check=False)
        if probe.returncode != 0:
            raise
        errs = [l.strip() for l in msg.splitlines() if l.startswith("error")]
        first = errs[0] if errs else "build failed"
        return {"engine": f"vderive [{cfg}] (build)", "counts": {"evaluations": 1, "programs": 1}, "observed": {}, "samples": [], "notes": [], "bounds": {}, "exhaustive": False,
                "violations": [{"key": f"DERIVE-BUILD/{first[:120]}", "tag": "DERIVE-BUILD", "case": f"the corpus of valid definitions behind vderive {cmd} [{cfg}]",
                                "detail": "definitions that compile through #[derive(Logos)] on the unchanged tree no longer compile: " + " | ".join(errs[:6])[:900],
                                "replay": {"kind": "derive-build", "tag": "DERIVE-BUILD", "cfg": cfg}}]}
    return run_engine([exe, cmd, "--prop", prop, "--tier", tier, "--out", out_json] + (extra or []), out_json, timeout=3600)


def ensure_cli():
    """Build the real logos-cli from /repo's working tree (optimised dev profile: the CLI is run thousands of times)."""
    tdir = os.path.join(ENGINE, "cli-target")
    if "cli" not in _built:
        sh(["cargo", "build", "-p", "logos-cli", "--offline", "-q", "--target-dir", tdir], cwd=REPO, timeout=3600, extra_env={"CARGO_PROFILE_DEV_OPT_LEVEL": "2"})
        _built.add("cli")
    return os.path.join(tdir, "debug", "logos-cli")
