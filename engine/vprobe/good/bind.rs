//! Binding of the library expansion used by Layer 2 to what rustc gets from the REAL derive: every
//! curated definition, compiled through #[derive(Logos)], is run on all short strings over a fixed
//! alphabet and compared with the reference lexer.
use vcore::graph::Item;
use vcore::report::{Report, Violation};
use vcore::spec::{Kind, Spec};

fn main() {
    let args: Vec<String> = std::env::args().collect();
    let cases: serde_json::Value = serde_json::from_str(&std::fs::read_to_string(&args[1]).expect("cases.json")).expect("json");
    let mut rep = Report::new("bind", "vprobe good/bind (real derive vs reference lexer)", "quick");
    let alpha: Vec<&[u8]> = vec![b"a", b"b", b"c", b"0", b"1", b" ", b".", "é".as_bytes(), b"\"", b"\n", b"x", b"_", b"-", b"/", b"*", "€".as_bytes()];
    for c in cases.as_array().unwrap() {
        let n = c["n"].as_u64().unwrap() as usize;
        let spec: Spec = serde_json::from_value(c["spec"].clone()).expect("spec");
        let info = match vcore::analysis::analyse(&spec, &[], None, 200_000) {
            Ok(i) => i,
            Err(_) => continue,
        };
        let skip: Vec<bool> = spec.pats.iter().map(|p| p.kind == Kind::Skip).collect();
        let lexer = vcore::reflex::RefLexer { ra: &info.ra, prios: &info.prios, skip: &skip, is_str: spec.utf8 };
        rep.count("programs", 1);
        let mut stack: Vec<Vec<u8>> = vec![vec![]];
        while let Some(s) = stack.pop() {
            let want: Vec<(i32, usize, usize)> = lexer.run(&s).items.iter().map(|i| match *i { Item::Tok(l, a, b) => (l as i32, a, b), Item::Err(a, b) => (-1, a, b) }).collect();
            let got = vprobe_good::run(n, &s);
            rep.count("traces_validated_against_impl", 1);
            rep.count("evaluations", 1);
            if got != want && rep.violations.len() < 10 {
                rep.violations.push(Violation {
                    key: format!("DERIVE-BINDING/{}", spec.short()),
                    tag: "DERIVE-BINDING".into(),
                    case: spec.short(),
                    detail: format!("input {:?}: the lexer from the real derive yields {got:?}, the reference {want:?}", String::from_utf8_lossy(&s)),
                    replay: serde_json::json!({"kind": "probe", "tag": "DERIVE-BINDING"}),
                });
            }
            if s.len() < 3 || (s.len() < 4 && std::str::from_utf8(&s).map_or(false, |t| t.chars().count() < 3)) {
                for a in &alpha {
                    if stack.len() < 5_000_000 {
                        let mut t = s.clone();
                        t.extend_from_slice(a);
                        if t.iter().filter(|b| (**b & 0xC0) != 0x80).count() <= 3 {
                            stack.push(t);
                        }
                    }
                }
            }
        }
    }
    println!("{}", serde_json::to_string(&rep).unwrap());
}
