//! Trust chain of the reference semantics (DESIGN.md 2.3), re-checked on every run:
//! (i) the UTF-8 DFA against std; (ii) every Unicode class byte automaton against char::encode_utf8
//! over all 0x110000 scalars; (iii) the subset automaton against a denotational evaluator of HIR on
//! all short strings; (iv) against the `regex` crate proper (a different engine stack).
use crate::Args;
use rayon::prelude::*;
use regex_syntax::hir::{Class, Hir, HirKind, Look};
use std::collections::BTreeSet;
use vcore::refaut::RefAut;
use vcore::report::{Report, Violation};

fn is_word(b: Option<u8>) -> bool {
    matches!(b, Some(b'0'..=b'9' | b'A'..=b'Z' | b'a'..=b'z' | b'_'))
}

fn decode(h: &[u8], pos: usize) -> Option<(char, usize)> {
    let rest = &h[pos..];
    for n in 1..=4.min(rest.len()) {
        if let Ok(s) = std::str::from_utf8(&rest[..n]) {
            return Some((s.chars().next().unwrap(), n));
        }
    }
    None
}

/// denotational semantics: the set of end positions of matches of `hir` starting at `pos`
pub fn ends(hir: &Hir, h: &[u8], pos: usize) -> BTreeSet<usize> {
    let mut out = BTreeSet::new();
    match hir.kind() {
        HirKind::Empty => {
            out.insert(pos);
        }
        HirKind::Literal(l) => {
            if h[pos..].starts_with(&l.0) {
                out.insert(pos + l.0.len());
            }
        }
        HirKind::Class(Class::Bytes(c)) => {
            if let Some(&b) = h.get(pos) {
                if c.ranges().iter().any(|r| r.start() <= b && b <= r.end()) {
                    out.insert(pos + 1);
                }
            }
        }
        HirKind::Class(Class::Unicode(c)) => {
            if let Some((ch, n)) = decode(h, pos) {
                if c.ranges().iter().any(|r| r.start() <= ch && ch <= r.end()) {
                    out.insert(pos + n);
                }
            }
        }
        HirKind::Look(look) => {
            let prev = if pos == 0 { None } else { Some(h[pos - 1]) };
            let next = h.get(pos).copied();
            let ok = match look {
                Look::Start => pos == 0,
                Look::End => pos == h.len(),
                Look::StartLF => pos == 0 || prev == Some(b'\n'),
                Look::EndLF => pos == h.len() || next == Some(b'\n'),
                Look::StartCRLF => pos == 0 || prev == Some(b'\n') || (prev == Some(b'\r') && next != Some(b'\n')),
                Look::EndCRLF => pos == h.len() || next == Some(b'\r') || (next == Some(b'\n') && prev != Some(b'\r')),
                Look::WordAscii => is_word(prev) != is_word(next),
                Look::WordAsciiNegate => is_word(prev) == is_word(next),
                Look::WordStartAscii => !is_word(prev) && is_word(next),
                Look::WordEndAscii => is_word(prev) && !is_word(next),
                Look::WordStartHalfAscii => !is_word(prev),
                Look::WordEndHalfAscii => !is_word(next),
                _ => false,
            };
            if ok {
                out.insert(pos);
            }
        }
        HirKind::Repetition(rep) => {
            let mut cur: BTreeSet<usize> = [pos].into_iter().collect();
            let mut seen: BTreeSet<usize> = BTreeSet::new();
            let mut k = 0u32;
            if rep.min == 0 {
                out.insert(pos);
            }
            loop {
                if let Some(max) = rep.max {
                    if k >= max {
                        break;
                    }
                }
                let mut nxt = BTreeSet::new();
                for &p in &cur {
                    nxt.extend(ends(&rep.sub, h, p));
                }
                k += 1;
                if nxt.is_empty() {
                    break;
                }
                if k >= rep.min {
                    out.extend(nxt.iter().copied());
                }
                // positions only move forward or stay: after enough rounds nothing new can appear
                if k > rep.min + h.len() as u32 + 2 && nxt.is_subset(&seen) {
                    break;
                }
                seen.extend(nxt.iter().copied());
                cur = nxt;
            }
        }
        HirKind::Capture(c) => return ends(&c.sub, h, pos),
        HirKind::Concat(hs) => {
            let mut cur: BTreeSet<usize> = [pos].into_iter().collect();
            for x in hs {
                let mut nxt = BTreeSet::new();
                for &p in &cur {
                    nxt.extend(ends(x, h, p));
                }
                cur = nxt;
                if cur.is_empty() {
                    break;
                }
            }
            return cur;
        }
        HirKind::Alternation(hs) => {
            for x in hs {
                out.extend(ends(x, h, pos));
            }
        }
    }
    out
}

/// match ends (from position 0) according to the subset automaton
fn aut_ends(ra: &RefAut, h: &[u8]) -> BTreeSet<usize> {
    let mut out = BTreeSet::new();
    let mut s = 0usize;
    for n in 0..=h.len() {
        let sym = h.get(n).copied();
        let (m, nx) = &ra.trans[s][ra.col(sym)];
        if !m.is_empty() {
            out.insert(n);
        }
        if sym.is_none() {
            break;
        }
        s = *nx;
    }
    out
}

fn parse(p: &str, unicode: bool) -> Option<Hir> {
    regex_syntax::ParserBuilder::new().utf8(false).unicode(unicode).build().parse(p).ok()
}

pub fn run(a: &Args) -> Report {
    let mut rep = Report::new(&a.prop, "vgraph selfcheck (reference trust chain)", &a.tier_name);
    let fail = |rep: &mut Report, what: String| {
        if rep.violations.len() < 10 {
            rep.violations.push(Violation { key: format!("SELFCHECK/{what}"), tag: "SELFCHECK".into(), case: what.clone(), detail: what, replay: serde_json::json!({"kind": "selfcheck", "tag": "SELFCHECK"}) });
        }
    };
    // (i)
    match vcore::utf8::self_check() {
        Ok(n) => rep.count("utf8_dfa_cases", n),
        Err(e) => fail(&mut rep, e),
    }
    // (ii) Unicode classes over all scalars
    let classes = [".", "[^a]", "[α-ω]", "\\p{Greek}", "\\w", "\\p{L}", "(?i:k)", "(?i:s)", "[é-ü]", "\\s", "\\d", "\\p{XID_Start}", "\\p{XID_Continue}", "[\\u{0}-\\u{10FFFF}]", "\\p{Cyrillic}", "[^\\x00-\\x7f]", "(?s:.)", "\\p{White_Space}", "[a-zé]"];
    let res: Vec<Result<u64, String>> = classes
        .par_iter()
        .map(|cp| {
            let hir = parse(cp, true).ok_or(format!("cannot parse {cp}"))?;
            let HirKind::Class(Class::Unicode(cls)) = hir.kind() else { return Err(format!("{cp} is not a Unicode class")) };
            let ra = RefAut::build(&[hir.clone()], &[], 100_000).map_err(|e| format!("{cp}: {e:?}"))?;
            let mut n = 0u64;
            let mut buf = [0u8; 4];
            for u in 0..0x110000u32 {
                let Some(c) = char::from_u32(u) else { continue };
                let enc = c.encode_utf8(&mut buf).as_bytes();
                let member = cls.ranges().iter().any(|r| r.start() <= c && c <= r.end());
                let accepted = !ra.matches(enc, None).is_empty();
                n += 1;
                if member != accepted {
                    return Err(format!("class {cp}: U+{u:04X} member={member} but the byte automaton says {accepted}"));
                }
            }
            Ok(n)
        })
        .collect();
    for r in res {
        match r {
            Ok(n) => rep.count("unicode_class_scalars_checked", n),
            Err(e) => fail(&mut rep, e),
        }
    }
    // (iii) + (iv) on every term of a small family and every string up to length L
    let mut atoms: Vec<&str> = vcore::enumerate::ATOMS_CORE.to_vec();
    atoms.extend(["€", "[a-c]", "(?-u:\\b)", "(?-u:\\B)", "$", "(?m:$)", "(?m:^)", "^", "(?-u:\\b{start})", "(?-u:\\b{end-half})"]);
    let k = if a.tier == vcore::enumerate::Tier::Thorough { 2 } else { 1 };
    let mut terms = vcore::enumerate::terms(&atoms, k, vcore::enumerate::POSTFIX, vcore::enumerate::FLAGS);
    if k == 2 {
        terms.truncate(6000);
    }
    let alpha: Vec<&[u8]> = vec![b"a", b"b", "é".as_bytes(), b"\n", b"0", b" ", "€".as_bytes(), b"\xff"];
    let l = 4;
    let mut strs: Vec<Vec<u8>> = vec![vec![]];
    let mut cur: Vec<Vec<u8>> = vec![vec![]];
    for _ in 0..l {
        let mut nxt = vec![];
        for s in &cur {
            for x in &alpha {
                let mut t = s.clone();
                t.extend_from_slice(x);
                nxt.push(t);
            }
        }
        strs.extend(nxt.iter().cloned());
        cur = nxt;
    }
    let res: Vec<Result<(u64, u64), String>> = terms
        .par_iter()
        .map(|t| {
            let src = t.render();
            let Some(hir) = parse(&src, true) else { return Ok((0, 0)) };
            let ra = match RefAut::build(&[hir.clone()], &[], 100_000) {
                Ok(r) => r,
                Err(_) => return Ok((0, 0)),
            };
            let has_look = ra.has_look;
            let re = if has_look { None } else { regex::bytes::Regex::new(&format!("(?s-u:\\A)(?:{src})(?-u:\\z)")).ok() };
            let (mut n1, mut n2) = (0u64, 0u64);
            for h in &strs {
                let d = ends(&hir, h, 0);
                let au = aut_ends(&ra, h);
                n1 += 1;
                if d != au {
                    return Err(format!("pattern {src} on {:?}: denotational ends {d:?}, subset automaton {au:?}", String::from_utf8_lossy(h)));
                }
                if let Some(re) = &re {
                    n2 += 1;
                    if re.is_match(h) != au.contains(&h.len()) {
                        return Err(format!("pattern {src} on {:?}: regex crate whole-match {}, subset automaton {}", String::from_utf8_lossy(h), re.is_match(h), au.contains(&h.len())));
                    }
                }
            }
            Ok((n1, n2))
        })
        .collect();
    for r in res {
        match r {
            Ok((a1, a2)) => {
                rep.count("denotational_vs_automaton_cases", a1);
                rep.count("regex_crate_vs_automaton_cases", a2);
            }
            Err(e) => fail(&mut rep, e),
        }
    }
    rep.count("selfcheck_patterns", terms.len() as u64);
    rep.notes.push("selfcheck: the reference semantics agrees with std (UTF-8), char::encode_utf8 (Unicode classes), a denotational HIR evaluator and the regex crate on every enumerated case".into());
    rep
}
