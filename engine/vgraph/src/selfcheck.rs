use crate::Args;
use vcore::report::Report;
pub fn run(a: &Args) -> Report { Report::new(&a.prop, "stub", &a.tier_name) }
