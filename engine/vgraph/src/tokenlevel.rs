//! Token-stream-level explorers: C16 (iteration-order seams), C18 (argument orders),
//! C19 (attribute grammar through the library entry point).
use crate::Args;
use rayon::prelude::*;
use serde_json::json;
use std::collections::BTreeSet;
use vcore::enumerate::Tier;
use vcore::report::{Report, Violation};
use vcore::spec::Spec;
use vdrive::verif_hooks;

fn viol(tag: &str, kind: &str, case: String, detail: String, replay: serde_json::Value) -> Violation {
    let mut r = replay;
    r["kind"] = json!(kind);
    r["tag"] = json!(tag);
    Violation { key: format!("{tag}/{case}"), tag: tag.into(), case, detail, replay: r }
}

// ------------------------------------------------------------------------------------ C16

fn perms_for(n: usize) -> Vec<Vec<usize>> {
    let id: Vec<usize> = (0..n).collect();
    let mut out: BTreeSet<Vec<usize>> = BTreeSet::new();
    if n <= 4 {
        // all permutations (Heap's algorithm, small n)
        fn rec(k: usize, a: &mut Vec<usize>, out: &mut BTreeSet<Vec<usize>>) {
            if k <= 1 {
                out.insert(a.clone());
                return;
            }
            for i in 0..k {
                rec(k - 1, a, out);
                if k % 2 == 0 {
                    a.swap(i, k - 1)
                } else {
                    a.swap(0, k - 1)
                }
            }
        }
        let mut a = id.clone();
        rec(n, &mut a, &mut out);
    } else {
        for i in 0..n - 1 {
            let mut p = id.clone();
            p.swap(i, i + 1);
            out.insert(p);
        }
        let mut r = id.clone();
        r.reverse();
        out.insert(r);
        for k in 1..n {
            let mut p = id.clone();
            p.rotate_left(k);
            out.insert(p);
        }
    }
    out.remove(&id);
    out.into_iter().collect()
}

struct GenRun {
    tokens: String,
    graph: Option<vcore::graph::Graph>,
    /// sorted (the order of seam calls itself depends on hash iteration; identity is by content)
    log: Vec<verif_hooks::SeamCall>,
}

/// (site, fingerprint, occurrence, permutation relative to the canonical order)
type Script = Vec<(String, u64, usize, Vec<usize>)>;

fn gen_with(src: &str, sm: bool, script: Script) -> GenRun {
    gen_mode(src, sm, script, true)
}

/// canonical = every seam call without a script entry is put into sorted order (the explorer owns
/// the nondeterminism); false = orders as the real hash seeds produce them
fn gen_mode(src: &str, sm: bool, script: Script, canonical: bool) -> GenRun {
    verif_hooks::seam_reset_with(script.into_iter().map(|(site, fingerprint, occurrence, perm)| verif_hooks::SeamScript { site, fingerprint, occurrence, perm }).collect(), canonical);
    let g = vdrive::generate(src, sm);
    let mut log = verif_hooks::seam_log();
    log.sort();
    verif_hooks::seam_reset(vec![]);
    verif_hooks::seam_off();
    GenRun { tokens: g.tokens.map(|t| t.to_string()).unwrap_or_else(|| format!("PANIC {:?}", g.observed.panicked)), graph: g.observed.graph, log }
}

/// tokens of generate() for `src` in a fresh process (child mode `c16-fresh`)
fn fresh_process_tokens(exe: &std::path::Path, src: &str, sm: bool) -> Option<String> {
    use std::io::Write;
    let mut ch = std::process::Command::new(exe)
        .args(["c16-fresh", "--seed", if sm { "1" } else { "0" }])
        .stdin(std::process::Stdio::piped())
        .stdout(std::process::Stdio::piped())
        .stderr(std::process::Stdio::null())
        .spawn()
        .ok()?;
    ch.stdin.take()?.write_all(src.as_bytes()).ok()?;
    let out = ch.wait_with_output().ok()?;
    if !out.status.success() {
        return None;
    }
    String::from_utf8(out.stdout).ok()
}

pub fn c16_fresh_child(a: &Args) {
    use std::io::Read;
    let mut src = String::new();
    std::io::stdin().read_to_string(&mut src).expect("stdin");
    let r = gen_with(&src, a.seed == 1, vec![]);
    print!("{}", r.tokens);
}

struct C16Job {
    def: usize,
    sm: bool,
    script: Script,
}

/// permutations tried at a seam call of length n; `full` = thorough tier
fn perms_tier(n: usize, full: bool) -> Vec<Vec<usize>> {
    if full || n <= 4 {
        return perms_for(n);
    }
    let id: Vec<usize> = (0..n).collect();
    let mut rev = id.clone();
    rev.reverse();
    let mut rot = id.clone();
    rot.rotate_left(1);
    let mut tr = id.clone();
    tr.swap(0, 1);
    let mut tr2 = id.clone();
    tr2.swap(n - 2, n - 1);
    vec![rev, rot, tr, tr2]
}

fn c16_corpus(tier: Tier) -> Vec<(String, Spec)> {
    let mut v: Vec<(String, Spec)> = vcore::curated::curated().into_iter().filter(|(_, _, h)| !h).map(|(n, s, _)| (n.to_string(), s)).collect();
    // definitions with disambiguation errors (the error list has its own seam)
    v.push(("conflict2".into(), Spec::new(true, vec![vcore::spec::Pat::regex("a+"), vcore::spec::Pat::regex("[a-c]+").prio(2), vcore::spec::Pat::regex("b+"), vcore::spec::Pat::regex("[b-d]+").prio(2)])));
    v.push(("conflict3".into(), Spec::new(true, vec![vcore::spec::Pat::regex("ab"), vcore::spec::Pat::regex("a[b]"), vcore::spec::Pat::regex("[a]b"), vcore::spec::Pat::regex("cd"), vcore::spec::Pat::regex("c[d]")])));
    // MANY diagnostics of one kind (more than any plausible cap or batch size): whatever is kept,
    // dropped or summarised must not depend on the order in which the states were visited
    for n in [17usize, 33] {
        let mut pats = vec![];
        for i in 0..n {
            pats.push(vcore::spec::Pat::token(&format!("k{i:02}")));
            pats.push(vcore::spec::Pat::regex(&format!("k{i:02}")));
        }
        v.push((format!("conflict_many{n}"), Spec::new(true, pats)));
    }
    {
        // conflicts spread over states of one shared loop (several conflicting states per pair)
        let mut pats = vec![];
        for i in 0..20 {
            let c = (b'a' + i as u8) as char;
            pats.push(vcore::spec::Pat::regex(&format!("{c}[0-9]+")));
            pats.push(vcore::spec::Pat::regex(&format!("{c}[0-9]+x?")));
        }
        v.push(("conflict_many_loops".into(), Spec::new(true, pats)));
    }
    // definitions that are REJECTED: the diagnostics are part of the output too
    v.push(("undef_sub".into(), Spec::new(true, vec![vcore::spec::Pat::regex("(?&nope)x"), vcore::spec::Pat::regex("(?&a)(?&zz)")]).with_sub("a", "a").with_sub("b", "b").with_sub("c", "c").with_sub("d", "d")));
    v.push(("nullable_many".into(), Spec::new(true, vec![vcore::spec::Pat::regex("a*"), vcore::spec::Pat::regex("b?"), vcore::spec::Pat::regex("(c|)"), vcore::spec::Pat::skip("d*")])));
    v.push(("nonutf8_many".into(), Spec::new(true, vec![vcore::spec::Pat::bregex(b"\\xff"), vcore::spec::Pat::bregex(b"[\\x80-\\x90]"), vcore::spec::Pat::regex("(?-u:\\xfe)")])));
    // the same regex source with and without ignore(case) (state must not leak between calls)
    v.push(("kw_plain".into(), Spec::new(true, vec![vcore::spec::Pat::regex("select|from|where"), vcore::spec::Pat::regex("[a-z]+").prio(1)])));
    v.push(("kw_icase".into(), Spec::new(true, vec![vcore::spec::Pat::regex("select|from|where").icase(), vcore::spec::Pat::regex("[a-z]+").prio(1)])));
    v.push(("kw_sub1".into(), Spec::new(true, vec![vcore::spec::Pat::regex("(?&d)+x")]).with_sub("d", "[0-9]")));
    v.push(("kw_sub2".into(), Spec::new(true, vec![vcore::spec::Pat::regex("(?&d)+x")]).with_sub("d", "[0-7]")));
    // the same regex text over subpatterns of different weight (priority) and different case handling
    v.push(("kw_sub3".into(), Spec::new(true, vec![vcore::spec::Pat::regex("(?&d)+x"), vcore::spec::Pat::token("abcx")]).with_sub("d", "abc")));
    v.push(("kw_sub4".into(), Spec::new(true, vec![vcore::spec::Pat::regex("(?&d)+x").icase(), vcore::spec::Pat::token("abcx").prio(1)]).with_sub("d", "abc")));
    v.push(("kw_tok_plain".into(), Spec::new(true, vec![vcore::spec::Pat::token("select"), vcore::spec::Pat::regex("[a-zA-Z]+").prio(1)])));
    v.push(("kw_tok_icase".into(), Spec::new(true, vec![vcore::spec::Pat::token("select").icase(), vcore::spec::Pat::regex("[a-zA-Z]+").prio(1)])));
    v.push(("kw_skip_plain".into(), Spec::new(true, vec![vcore::spec::Pat::skip("rem"), vcore::spec::Pat::regex("[a-zA-Z]+").prio(1)])));
    v.push(("kw_skip_icase".into(), Spec::new(true, vec![vcore::spec::Pat::skip("rem").icase(), vcore::spec::Pat::regex("[a-zA-Z]+").prio(1)])));
    v.push(("kw_bytes_plain".into(), Spec::new(false, vec![vcore::spec::Pat::regex("select|from|where"), vcore::spec::Pat::regex("[a-z]+").prio(1)])));
    // two patterns that differ only in a trailing look-ahead, at the same priority (every child of
    // the shared state accepts a different leaf)
    v.push(("kw_la_pair1".into(), Spec::new(true, vec![vcore::spec::Pat::regex("a(?-u:\\b)"), vcore::spec::Pat::regex("a(?-u:\\B)")])));
    v.push(("kw_la_pair2".into(), Spec::new(true, vec![vcore::spec::Pat::regex("if(?-u:\\b)"), vcore::spec::Pat::regex("if(?-u:\\B)"), vcore::spec::Pat::regex("[a-z]+").prio(1)])));
    v.push(("kw_la_pair3".into(), Spec::new(false, vec![vcore::spec::Pat::skip("#(?-u:\\b)"), vcore::spec::Pat::regex("#(?-u:\\B)"), vcore::spec::Pat::regex("x(?m:$)"), vcore::spec::Pat::regex("x(?-u:\\b{start-half})").prio(9)])));
    // edge merges: one whose merged class contains 0xff, and ordinary ones expanded before / after it
    v.push(("kw_ff_merge".into(), Spec::new(false, vec![vcore::spec::Pat::bregex(b"\\x01z|\\xFFz")])));
    v.push(("kw_ff_merge2".into(), Spec::new(false, vec![vcore::spec::Pat::bregex(b"[\\xf0-\\xff]q|[\\x00-\\x0f]q"), vcore::spec::Pat::bregex(b"\\xffz|az")])));
    v.push(("kw_merge".into(), Spec::new(true, vec![vcore::spec::Pat::regex("ab|cb")])));
    v.push(("kw_merge_b".into(), Spec::new(false, vec![vcore::spec::Pat::regex("ab|cb"), vcore::spec::Pat::regex("[x-z]w|[0-3]w")])));
    if tier == Tier::Thorough {
        // one representative per distinct graph shape of the quick family
        let fam = vcore::enumerate::family(Tier::Quick);
        let shapes: Vec<Option<String>> = fam.par_iter().map(|s| crate::common::observe(s, false).1.graph.map(|g| g.signature())).collect();
        let mut seen = BTreeSet::new();
        for (s, sh) in fam.iter().zip(shapes) {
            if let Some(sh) = sh {
                if seen.insert(sh) {
                    v.push((format!("shape{}", seen.len()), s.clone()));
                }
            }
        }
    }
    v
}

/// definitions the Spec type cannot express (generics, lifetimes, byte regexes with two isolated holes)
fn c16_raw() -> Vec<(String, String)> {
    let mut v = vec![];
    let mut add = |n: &str, s: &str| v.push((n.to_string(), s.to_string()));
    add("raw_lifetime_none", "#[logos(lifetime = none)] enum T<'s> { #[token(\"a\")] A(&'s str), #[regex(\"[0-9]+\")] N }");
    add("raw_lifetime_none2", "#[logos(lifetime = none)] enum T<'s> { #[regex(\"[a-z]+\")] W(&'s str) }");
    add("raw_lifetime_s", "enum T<'s> { #[regex(\"[a-z]+\", |lex| lex.slice())] W(&'s str) }");
    add("raw_lifetime_a", "enum T<'a> { #[regex(\"[a-z]+\", |lex| lex.slice())] W(&'a str) }");
    add("raw_generic", "#[logos(type S = &str)] enum T<S> { #[regex(\"[a-z]+\")] W(S), #[token(\"x\")] X }");
    add("raw_generic2", "#[logos(type S = u8, type U = u16)] enum T<S, U> { #[regex(\"[a-z]+\", |_| 1)] W(S), #[token(\"x\", |_| 2)] X(U) }");
    add("raw_except2", "#[logos(utf8 = false)] enum T { #[regex(b\"=[^,\\n]+\")] A }");
    add("raw_except2b", "#[logos(utf8 = false)] enum T { #[regex(b\"q[^\\x00\\xff]z\")] A, #[regex(b\"[^ay][0-9]\")] B }");
    add("raw_except3", "#[logos(utf8 = false)] enum T { #[regex(b\"=[^,;\\n]+\")] A, #[regex(b\"'[^'\\\\]'\")] B }");
    add("raw_stray_types", "#[logos(type A = u8, type B = u16, type C = u32, type D = u64)] enum T { #[token(\"a\")] X }");
    add("raw_stray_types2", "#[logos(type A = u8)] #[logos(type B = u16, type C = u32)] enum T<Q> { #[token(\"a\")] X(Q) }");
    add("raw_dup_items", "#[logos(extras = u8, extras = u16, error = E, error = F, utf8 = false, utf8 = true)] enum T { #[token(\"a\")] X, #[token(\"a\")] Y, #[regex(\"a\")] Z }");
    add("raw_extras_error", "#[logos(extras = Vec<u8>, error = E)] #[logos(skip \" +\")] enum T { #[regex(\"[a-z]+\", cb)] W, #[token(\"=\")] Eq }");
    add("raw_crate", "#[logos(crate = my::logos)] enum T { #[token(\"a\")] A, #[token(\"b\")] B }");
    // several leaves with the SAME action: one variant carrying several attributes, several plain
    // skips, several skips / variants sharing one callback (anything that groups leaves by what they
    // do has two or more groups of two or more members here)
    add("raw_shared_unit", "enum T { #[token(\"+\")] #[token(\"plus\")] #[regex(\"add(ed)?\")] Plus, #[token(\"-\")] #[token(\"minus\")] Minus, #[regex(\"[0-9]+\")] N }");
    add("raw_shared_skips", "#[logos(skip \" +\", skip \"\\t+\")] #[logos(skip \"#[a-z]*\")] enum T { #[token(\"a\")] #[token(\"b\")] AB, #[token(\"c\")] C }");
    add("raw_shared_cb", "#[logos(skip(\" +\", sk), skip(\"\\n+\", sk))] enum T { #[regex(\"[a-z]+\", cb)] #[regex(\"[A-Z]+\", cb)] W(u8), #[regex(\"[0-9]+\", cb)] N(u8), #[token(\"x\", |_| 1)] #[token(\"y\", |_| 1)] XY(u8), #[token(\"=\")] #[token(\":=\")] Eq }");
    add("raw_shared_many", "enum T { #[token(\"a\")] #[token(\"b\")] #[token(\"c\")] #[token(\"d\")] #[token(\"e\")] Abc, #[token(\"f\")] #[token(\"g\")] #[token(\"h\")] Fgh, #[token(\"i\")] #[token(\"j\")] Ij, #[token(\"k\")] #[token(\"l\")] Kl, #[token(\"m\")] M }");
    // MANY TABLE COLUMNS that agree outside some loop's class: k loops over a shared core class plus a
    // range of their own, and a loop over all those ranges that leaves through the core class (whatever
    // picks "a column that will do" among several has a choice here)
    for k in 2..=5usize {
        let prefixes = ['#', '@', '%', '&', '!'];
        let ranges = ["a-c", "d-f", "g-i", "j-l", "m-o"];
        let mut body = String::new();
        for i in 0..k {
            body.push_str(&format!("#[regex(\"{}[0-9A-Z_{}]+\")] L{i}, ", prefixes[i], ranges[i]));
        }
        // (with and without a further loop that leaves through the core class itself - that one
        // registers the core class as a column of its own)
        let with_v = format!("{body}#[regex(\"[a-o]+[0-9A-Z_]\")] W, #[regex(\"[p-z]+[0-9A-Z_]?\")] V");
        body.push_str("#[regex(\"[a-z]+[0-9A-Z_]\")] W");
        add(&format!("raw_lut_cols{k}"), &format!("enum T {{ {body} }}"));
        add(&format!("raw_lut_cols{k}b"), &format!("#[logos(utf8 = false)] enum T {{ {body} }}"));
        add(&format!("raw_lut_cols{k}v"), &format!("enum T {{ {with_v} }}"));
    }
    // EXACT REPEATS of an item next to distinct ones (anything that folds repeats through a hash
    // container loses the written order): repeated skips, repeated attributes on one variant and on
    // several variants, repeated subpatterns / type items, in lists of 3 to 10 items
    add("raw_repeat_skips3", "#[logos(skip \" +\", skip \"\\t+\", skip \" +\")] enum T { #[token(\"a\")] A }");
    add("raw_repeat_skips6", "#[logos(skip \" +\", skip \"\\t+\", skip \" +\", skip \"\\n+\", skip \"#[a-z]*\", skip \"\\t+\")] enum T { #[token(\"a\")] A, #[regex(\"[0-9]+\")] N }");
    add("raw_repeat_skips10", "#[logos(skip \"s0\", skip \"s1\", skip \"s2\", skip \"s3\", skip \"s0\")] #[logos(skip \"s4\", skip \"s5\", skip \"s6\", skip \"s7\", skip \"s4\")] enum T { #[token(\"a\")] A }");
    add("raw_repeat_skips_cb", "#[logos(skip(\" +\", sk), skip(\"\\t+\", sk), skip(\" +\", sk), skip(\"\\n+\"), skip(\"\\n+\"))] enum T { #[token(\"a\")] A }");
    add("raw_repeat_skips_prio", "#[logos(skip(\"a+\", priority = 5), skip(\"b+\", priority = 5), skip(\"a+\", priority = 5), skip(\"c+\", priority = 6), skip(\"b+\", priority = 5))] enum T { #[token(\"z\")] Z }");
    add("raw_repeat_attrs", "enum T { #[token(\"a\")] #[token(\"b\")] #[token(\"a\")] #[token(\"c\")] #[token(\"d\")] #[token(\"c\")] A, #[regex(\"[0-9]+\")] #[regex(\"[0-9]+\")] N }");
    add("raw_repeat_variants", "enum T { #[token(\"a\")] A, #[token(\"b\")] B, #[token(\"a\")] C, #[token(\"c\")] D, #[token(\"b\")] E, #[token(\"d\")] F }");
    add("raw_repeat_subs", "#[logos(subpattern a = \"x\", subpattern b = \"y\", subpattern a = \"x\", subpattern c = \"z\", subpattern b = \"y\")] enum T { #[regex(\"(?&a)(?&b)(?&c)\")] A }");
    add("raw_repeat_types", "#[logos(type A = u8, type B = u16, type A = u8, type C = u32, type B = u16)] enum T<A, B, C> { #[regex(\"a\", cb)] X(A), #[regex(\"b\", cb)] Y(B), #[regex(\"c\", cb)] Z(C) }");
    v
}

pub fn c16(a: &Args) -> Report {
    let mut rep = Report::new(&a.prop, "vgraph c16", &a.tier_name);
    let mut corpus = c16_corpus(a.tier);
    let n_spec = corpus.len();
    let raw = c16_raw();
    for (n, _) in &raw {
        corpus.push((n.clone(), Spec::new(true, vec![])));
    }
    let full = a.tier == Tier::Thorough;
    let pair_limit = if full { 100 } else { 24 };
    rep.bounds.insert("deviations".into(), format!("bound 1: every seam call x non-identity permutations (all for length <= 4; above: {}); bound 2 (pairs of deviations: reversal x reversal, transposition x transposition) for every definition with at most {pair_limit} seam calls that offer a choice; both code generators", if full { "adjacent transpositions + reversal + rotations" } else { "reversal, rotation, first and last transposition" }));
    let mut sized: Vec<(usize, usize)> = corpus.iter().enumerate().map(|(i, (_, s))| (s.pats.len(), i)).collect();
    sized.sort();
    let small: BTreeSet<usize> = sized.iter().take(20).map(|x| x.1).collect();
    let srcs: Vec<String> = corpus.iter().enumerate().map(|(i, (_, s))| if i >= n_spec { raw[i - n_spec].1.clone() } else { s.render("T", "") }).collect();
    // run 0 (twice) per (definition, generator)
    let thread_history: std::sync::Mutex<Vec<(usize, bool)>> = std::sync::Mutex::new(vec![]);
    let bases: Vec<(GenRun, bool)> = (0..corpus.len() * 2)
        .into_par_iter()
        .map(|i| {
            let (d, sm) = (i / 2, i % 2 == 1);
            // run 0 on a FRESH thread: no other definition was expanded on it before (no history)
            let src0 = srcs[d].clone();
            let b = std::thread::spawn(move || gen_with(&src0, sm, vec![])).join().unwrap();
            let b2 = gen_with(&srcs[d], sm, vec![]);
            let mut same = b.tokens == b2.tokens && b.graph == b2.graph && b.log == b2.log;
            if !same {
                // a second fresh thread: if fresh threads agree with each other, the odd one out is the
                // pool thread, which has expanded other definitions before (state left on the thread)
                let src3 = srcs[d].clone();
                let b3 = std::thread::spawn(move || gen_with(&src3, sm, vec![])).join().unwrap();
                if b3.tokens == b.tokens && b3.graph == b.graph && b3.log == b.log {
                    same = true;
                    thread_history.lock().unwrap().push((d, sm));
                }
            }
            (b, same)
        })
        .collect();
    for (d, sm) in thread_history.into_inner().unwrap() {
        if rep.violations.len() < 40 {
            rep.violations.push(viol("HISTORY-DEPENDENT", "c16", format!("{} sm={sm} (worker thread)", corpus[d].0), "two fresh threads give the same output, a worker thread that expanded other definitions before gives another one (state left behind on the thread)".into(), json!({"spec": corpus[d].1, "src": srcs[d], "sm": sm, "script": [], "history": true})));
        }
    }
    let mut jobs: Vec<C16Job> = vec![];
    let mut sites = BTreeSet::new();
    for (i, (base, same)) in bases.iter().enumerate() {
        let (d, sm) = (i / 2, i % 2 == 1);
        rep.count("traces_validated_against_impl", 2);
        if !same {
            rep.violations.push(viol("NONDETERMINISTIC", "c16", format!("{} sm={sm}", corpus[d].0), "two runs with every seam in canonical order differ: a hash-iteration site that is not behind a sort (nondeterminism the seams do not own)".into(), json!({"spec": corpus[d].1, "src": srcs[d], "sm": sm, "script": []})));
            continue;
        }
        rep.count("states", base.log.len() as u64);
        for c in &base.log {
            sites.insert(c.site.to_string());
        }
        let points: Vec<(&verif_hooks::SeamCall, usize)> = base.log.iter().filter(|c| c.len >= 2).map(|c| (c, c.len)).collect();
        let at = |c: &verif_hooks::SeamCall, p: Vec<usize>| (c.site.to_string(), c.fingerprint, c.occurrence, p);
        for &(k, n) in &points {
            // the canonical (sorted) order itself is a deviation from the incoming order too
            jobs.push(C16Job { def: d, sm, script: vec![at(k, (0..n).collect())] });
            for p in perms_tier(n, full) {
                jobs.push(C16Job { def: d, sm, script: vec![at(k, p)] });
            }
        }
        let _ = &small;
        if points.len() <= pair_limit {
            let rev = |n: usize| (0..n).rev().collect::<Vec<_>>();
            let tr = |n: usize| {
                let mut v: Vec<usize> = (0..n).collect();
                v.swap(0, 1);
                v
            };
            for (x, &(k1, n1)) in points.iter().enumerate() {
                for &(k2, n2) in points.iter().skip(x + 1) {
                    jobs.push(C16Job { def: d, sm, script: vec![at(k1, rev(n1)), at(k2, rev(n2))] });
                    if n1 > 2 || n2 > 2 {
                        jobs.push(C16Job { def: d, sm, script: vec![at(k1, tr(n1)), at(k2, tr(n2))] });
                    }
                }
            }
        }
        if rep.samples.len() < 4 && base.log.len() > 20 && d % 7 == 3 {
            rep.samples.push(json!({"definition": corpus[d].0, "spec": corpus[d].1.short(), "generator": if sm { "state_machine" } else { "tailcall" }, "seam_calls": base.log.len(), "seam_calls_with_choice": points.len(), "first_calls": base.log.iter().take(6).map(|c| format!("{}[{}]", c.site, c.len)).collect::<Vec<_>>()}));
        }
    }
    if std::env::var("VGRAPH_C16_STATS").is_ok() {
        let mut per: std::collections::BTreeMap<usize, (usize, usize)> = Default::default();
        for j in &jobs {
            let e = per.entry(j.def).or_default();
            if j.script.len() == 1 { e.0 += 1 } else { e.1 += 1 }
        }
        for (d, (a, b)) in per {
            eprintln!("{:>24} single={a} pairs={b}", corpus[d].0);
        }
        std::process::exit(0);
    }
    rep.count("programs", corpus.len() as u64);
    rep.count("transitions", jobs.len() as u64);
    rep.count("traces_validated_against_impl", jobs.len() as u64);
    let bad: Vec<Option<String>> = jobs
        .par_iter()
        .map(|j| {
            let base = &bases[j.def * 2 + j.sm as usize].0;
            let r = gen_with(&srcs[j.def], j.sm, j.script.clone());
            if r.tokens != base.tokens || r.graph != base.graph {
                Some(if r.graph != base.graph { "graph".to_string() } else { "generated code".to_string() })
            } else {
                None
            }
        })
        .collect();
    let mut reported = BTreeSet::new();
    for (j, b) in jobs.iter().zip(bad) {
        if let Some(what) = b {
            let base = &bases[j.def * 2 + j.sm as usize].0;
            let _ = base;
            let site = j.script.iter().map(|x| x.0.clone()).collect::<Vec<_>>().join("+");
            rep.count("order_dependent_schedules", 1);
            if reported.insert((j.def, j.sm, site.clone())) && rep.violations.len() < 40 {
                rep.violations.push(viol(
                    "ORDER-DEPENDENT",
                    "c16",
                    format!("{} sm={} seam={site}", corpus[j.def].0, j.sm),
                    format!("permuting the hash-iteration order at seam call(s) {:?} ({site}) changes the {what}", j.script),
                    json!({"spec": corpus[j.def].1, "src": srcs[j.def], "sm": j.sm, "script": j.script}),
                ));
            }
        }
    }
    // history independence: a definition's output must not depend on what the same thread expanded
    // before (caches, statics): all definitions in order on one fresh thread, in reverse order on
    // another, each compared with the run-0 output
    for sm in [false, true] {
        for rev in [false, true] {
            let srcs2 = srcs.clone();
            let outs: Vec<(usize, String)> = std::thread::spawn(move || {
                let mut order: Vec<usize> = (0..srcs2.len()).collect();
                if rev {
                    order.reverse();
                }
                order.into_iter().map(|d| (d, gen_with(&srcs2[d], sm, vec![]).tokens)).collect()
            })
            .join()
            .unwrap();
            for (d, t) in outs {
                rep.count("traces_validated_against_impl", 1);
                rep.count("history_order_runs", 1);
                if t != bases[d * 2 + sm as usize].0.tokens && bases[d * 2 + sm as usize].1 {
                    rep.violations.push(viol("HISTORY-DEPENDENT", "c16", format!("{} sm={sm}", corpus[d].0), format!("the output for this definition differs when other definitions were expanded before it on the same thread ({} order)", if rev { "reverse" } else { "forward" }), json!({"spec": corpus[d].1, "src": srcs[d], "sm": sm, "script": [], "history": true})));
                }
            }
        }
    }
    // the same against a FRESH PROCESS per definition: process-wide statics (caches keyed too
    // coarsely, global counters) survive fresh threads, but not a fresh process
    {
        let exe = std::env::current_exe().expect("exe");
        let outs: Vec<Option<String>> = (0..corpus.len() * 2)
            .into_par_iter()
            .map(|i| {
                let (d, sm) = (i / 2, i % 2 == 1);
                fresh_process_tokens(&exe, &srcs[d], sm)
            })
            .collect();
        for (i, o) in outs.into_iter().enumerate() {
            let (d, sm) = (i / 2, i % 2 == 1);
            rep.count("traces_validated_against_impl", 1);
            rep.count("fresh_process_runs", 1);
            match o {
                None => rep.notes.push(format!("fresh-process child failed for {}", corpus[d].0)),
                Some(t) => {
                    if t != bases[i].0.tokens && bases[i].1 && rep.violations.len() < 40 {
                        rep.violations.push(viol("HISTORY-DEPENDENT", "c16", format!("{} sm={sm} (fresh process)", corpus[d].0), "the output of a fresh process that expands only this definition differs from the output inside the long-lived process that expanded the whole corpus (process-wide state)".into(), json!({"spec": corpus[d].1, "src": srcs[d], "sm": sm, "script": [], "history": true, "process": true})));
                    }
                }
            }
        }
    }
    rep.observe("distinct_seam_sites_reached", sites.len() as u64);
    rep.notes.push(format!("seam sites reached: {:?}", sites));
    // supplement (a sample of real hash seeds, labelled as such): fresh threads have fresh RandomState keys
    let mut thread_runs = 0u64;
    for (d, (name, spec)) in corpus.iter().enumerate().filter(|(d, _)| a.tier == Tier::Thorough || *d < 40 || *d >= n_spec) {
        let src = srcs[d].clone();
        for sm in [false, true] {
            let outs: Vec<String> = (0..8)
                .map(|_| {
                    let s = src.clone();
                    std::thread::spawn(move || gen_mode(&s, sm, vec![], false).tokens)
                })
                .collect::<Vec<_>>()
                .into_iter()
                .map(|h| h.join().unwrap())
                .collect();
            thread_runs += 8;
            if outs.iter().any(|o| *o != outs[0]) {
                rep.violations.push(viol("THREAD-DEPENDENT", "c16", format!("{name} sm={sm}"), "outputs of generate() differ between threads (different hash seeds)".into(), json!({"spec": spec, "src": src, "sm": sm, "script": [], "threads": 8})));
            }
        }
    }
    rep.count("supplement_thread_seed_samples", thread_runs);
    rep.notes.push("the fresh-thread runs are a SAMPLE of real hash seeds (supplement); the deciding part is the exhaustive seam exploration".into());
    // the DIAGNOSTICS are output as well: every derive input of the C19 attribute grammar (each
    // diagnostic the derive can produce is triggered by some of them) is expanded twice on one thread,
    // forward and then in reverse order, and once more on a fresh thread; whatever was expanded
    // before, the text must be the same
    {
        let mut seen = BTreeSet::new();
        let cases: Vec<String> = c19_cases(Tier::Quick).into_iter().filter(|c| !c.desc.starts_with("diagnostic text") && !c.desc.starts_with("unknown name")).map(|c| c.src).filter(|s| seen.insert(s.clone())).filter(|s| s.parse::<proc_macro2::TokenStream>().is_ok()).collect();
        let cases = std::sync::Arc::new(cases);
        let c1 = cases.clone();
        let (first, second): (Vec<String>, Vec<String>) = std::thread::spawn(move || {
            let run = |s: &String| {
                let g = vdrive::generate(s, false);
                g.tokens.map(|t| t.to_string()).unwrap_or_else(|| format!("PANIC {:?}", g.observed.panicked))
            };
            let first: Vec<String> = c1.iter().map(run).collect();
            let mut second: Vec<String> = c1.iter().rev().map(run).collect();
            second.reverse();
            (first, second)
        })
        .join()
        .unwrap();
        // a sample of them on fresh threads of their own (every 7th)
        let mut bad = 0;
        for (i, src) in cases.iter().enumerate() {
            rep.count("traces_validated_against_impl", 2);
            let mut differs = first[i] != second[i];
            if !differs && i % 7 == 0 {
                let s = src.clone();
                let fresh = std::thread::spawn(move || {
                    let g = vdrive::generate(&s, false);
                    g.tokens.map(|t| t.to_string()).unwrap_or_else(|| format!("PANIC {:?}", g.observed.panicked))
                })
                .join()
                .unwrap();
                differs = fresh != second[i];
                rep.count("traces_validated_against_impl", 1);
            }
            if differs {
                bad += 1;
                if bad <= 6 {
                    rep.violations.push(viol("HISTORY-DEPENDENT", "c16", format!("derive input {src}"), "the output (diagnostics included) for this input depends on what was expanded before it in the same process".into(), json!({"src": src, "sm": false, "script": [], "diagnostics": true})));
                }
            }
        }
        rep.count("programs", cases.len() as u64);
        rep.count("diagnostic_inputs_run_twice", cases.len() as u64);
    }
    rep
}

// ------------------------------------------------------------------------------------ C18

fn permutations<T: Clone>(v: &[T]) -> Vec<Vec<T>> {
    if v.len() <= 1 {
        return vec![v.to_vec()];
    }
    let mut out = vec![];
    for i in 0..v.len() {
        let mut rest = v.to_vec();
        let x = rest.remove(i);
        for mut p in permutations(&rest) {
            p.insert(0, x.clone());
            out.push(p);
        }
    }
    out
}

fn subsets<T: Clone>(v: &[T]) -> Vec<Vec<T>> {
    (0..(1usize << v.len())).map(|m| v.iter().enumerate().filter(|(i, _)| m >> i & 1 == 1).map(|(_, x)| x.clone()).collect()).collect()
}

fn gen_tokens(src: &str) -> (String, bool) {
    let g = vdrive::generate(src, false);
    match g.tokens {
        Some(t) => (t.to_string(), g.observed.accepted),
        None => (format!("PANIC {:?}", g.observed.panicked), false),
    }
}

pub fn c18_cases() -> Vec<(String, Vec<String>)> {
    // (description, sources in all orders; first = canonical)
    let mut cases = vec![];
    let callbacks = ["cb", "|lex| lex.slice().len() < 3", "|lex| lex.slice().parse::<u32>().ok()", "|lex| { let (a, b) = (1, lex.slice().len()); a << 1 <= b }", "path::to::cb"];
    for (attr, lit, greedy_ok) in [("token", "\"ab\"", false), ("regex", "\"a.*b\"", true), ("skip", "\"a.*b\"", true)] {
      for cbv in callbacks {
        for positional in [false, true] {
            let mut named = vec!["priority = 7".to_string(), "ignore(case)".to_string()];
            if !positional {
                named.push(format!("callback = {cbv}"));
            }
            if greedy_ok {
                named.push("allow_greedy = true".into());
            } else {
                // tokens accept the argument syntactically as well
            }
            for sub in subsets(&named) {
                if sub.len() < 2 {
                    continue;
                }
                let mut sources = vec![];
                for p in permutations(&sub) {
                    let mut args = vec![lit.to_string()];
                    if positional {
                        args.push(cbv.to_string());
                    }
                    args.extend(p);
                    let args = args.join(", ");
                    let src = if attr == "skip" {
                        format!("#[logos(skip({args}))] enum T {{ #[token(\"zz\")] Z }}")
                    } else {
                        format!("enum T {{ #[{attr}({args})] A, #[token(\"zz\")] Z }}")
                    };
                    sources.push(src);
                }
                cases.push((format!("{attr} positional_cb={positional} args={sub:?}"), sources));
            }
        }
      }
    }
    // combined #[logos(...)]
    let items: Vec<(&str, &str)> = vec![
        ("skip", "skip \" +\""),
        ("skip", "skip(\"[\\t]+\", priority = 9)"),
        // skip / error items carrying callbacks of every spelling: plain label, paths that start
        // with `logos::` / `::logos::` / the renamed crate's path, closures that mention the crate -
        // whatever another item (crate = ...) means for them, it must not depend on the order
        ("skip", "skip(\" +\", logos::skip)"),
        ("skip", "skip(\" +\", callback = ::logos::skip)"),
        ("skip", "skip(\" +\", some::path::skip, priority = 3)"),
        ("skip", "skip(\" +\", |lex| { let _ = lex; logos::Skip })"),
        ("skip", "skip(\" +\", sk)"),
        // items whose ACCEPTANCE depends on another item of the list (the lexer's mode): byte-string and
        // Unicode-off skips / subpatterns that are only legal together with utf8 = false, wherever that is written
        ("skip", "skip b\"[\\xF0-\\xFF]+\""),
        ("skip", "skip(b\"\\xff+\", priority = 3)"),
        ("skip", "skip \"(?-u:[\\x80-\\xBF])\""),
        ("skip", "skip b\" +\""),
        ("subc", "subpattern c = b\"[\\x80-\\xff]\""),
        ("subd", "subpattern d = \"(?-u:\\xfe)\""),
        ("extras", "extras = Ex"),
        ("error", "error = Er"),
        ("error", "error(Er, callback = ecb)"),
        ("error", "error(Er, logos::ecb)"),
        ("error", "error(logos::Er, callback = some::path::ecb)"),
        ("error", "error(Er, |lex| { let _ = lex; logos::Er })"),
        ("utf8", "utf8 = false"),
        ("crate", "crate = some::path"),
        ("export_dir", "export_dir = \"target/verif-export\""),
        ("source", "source = [u8]"),
        ("suba", "subpattern a = \"[0-9]\""),
        ("subb", "subpattern b = \"(?&a)+x\""),
    ];
    for sub in subsets(&items) {
        if sub.len() < 2 || sub.len() > 5 {
            continue;
        }
        let kinds: Vec<&str> = sub.iter().map(|x| x.0).collect();
        if kinds.iter().filter(|k| **k == "skip").count() > 1 || kinds.iter().filter(|k| **k == "error").count() > 1 {
            continue;
        }
        if kinds.contains(&"subb") && !kinds.contains(&"suba") {
            continue;
        }
        let uses_b = kinds.contains(&"subb");
        let uses_a = kinds.contains(&"suba");
        let mut sources = vec![];
        for p in permutations(&sub) {
            let pa = p.iter().position(|x| x.0 == "suba");
            let pb = p.iter().position(|x| x.0 == "subb");
            if let (Some(pa), Some(pb)) = (pa, pb) {
                if pa > pb {
                    continue;
                }
            }
            let attr = p.iter().map(|x| x.1).collect::<Vec<_>>().join(", ");
            let user = if uses_b { "#[regex(\"(?&b)y\")] B," } else if uses_a { "#[regex(\"(?&a)y\")] B," } else { "" };
            sources.push(format!("#[logos({attr})] enum T {{ #[token(\"zz\")] Z, {user} }}"));
        }
        cases.push((format!("logos items {kinds:?}"), sources));
    }
    cases
}

/// canonical form of a captured graph: BFS numbering from the root over edges sorted by byte
/// range, leaves named by their display string (so that renumbered leaves / states compare equal)
fn canon_graph(g: &vcore::graph::Graph) -> String {
    let mut order: Vec<usize> = vec![g.root];
    let mut idx = std::collections::HashMap::new();
    idx.insert(g.root, 0usize);
    let mut out = String::new();
    let mut i = 0;
    let leaf = |l: Option<usize>| l.map(|x| format!("{}@{}", g.leaves[x].display, g.leaves[x].priority)).unwrap_or_default();
    while i < order.len() {
        let s = order[i];
        let st = &g.states[s];
        let mut edges: Vec<(Vec<(u8, u8)>, usize)> = st.normal.clone();
        edges.sort();
        out.push_str(&format!("[{}|{}|", leaf(st.accept), leaf(st.early)));
        for (rs, t) in edges {
            let n = *idx.entry(t).or_insert_with(|| {
                order.push(t);
                order.len() - 1
            });
            out.push_str(&format!("{rs:?}->{n};"));
        }
        if let Some(t) = st.eoi {
            let n = *idx.entry(t).or_insert_with(|| {
                order.push(t);
                order.len() - 1
            });
            out.push_str(&format!("$->{n}"));
        }
        out.push(']');
        i += 1;
    }
    out
}

/// (accepted, canonical graph) - equivalence of lexers whose leaves are numbered differently
fn gen_equiv(src: &str) -> (bool, String) {
    let g = vdrive::generate(src, false);
    (g.observed.accepted, g.observed.graph.as_ref().map(canon_graph).unwrap_or_else(|| format!("no graph: {:?}", g.observed.errors.first())))
}

/// #[logos(...)] items including SEVERAL skips: every permutation must be accepted alike and give
/// an equivalent lexer (canonical graphs equal), although leaves are numbered in written order
pub fn c18_skip_cases() -> Vec<(String, Vec<String>)> {
    let skips: Vec<Vec<&str>> = vec![
        vec!["skip(\"i[a-z]\", priority = 1)", "skip(\"[a-z]f\", priority = 1)", "skip(\"if\", priority = 5)"],
        vec!["skip(\"a+\", priority = 2)", "skip(\"[ab]+\", priority = 2)", "skip(\"ab\", priority = 9)"],
        vec!["skip \" +\"", "skip(\"[ \\t]\", priority = 1)", "skip(\"\\t\", priority = 7)", "extras = u8"],
        vec!["skip(\"x\", priority = 3)", "skip(\"[xy]\", priority = 1)", "skip(\"x|y\", priority = 2)", "utf8 = false"],
        vec!["skip \"a\"", "skip \"b\"", "skip(\"[ab]c\")", "error = E"],
        vec!["skip(\"k\", ignore(case))", "skip(\"K\", priority = 9)", "subpattern d = \"[0-9]\"", "skip(\"(?&d)+\")"],
        vec!["skip(\"rem[a-z]\", ignore(case))", "skip(\"#[a-z]\")", "skip \" +\"", "skip(\"Q\", priority = 8)"],
        vec!["skip(\"[a-z]+#\", ignore(case))", "skip(\"[a-z]+#\", priority = 20)", "skip \" +\""],
        vec!["skip(\"x[a-z]\", priority = 9, ignore(case))", "skip(\"x[a-z]\")", "skip(\"X[a-z]\", priority = 5)", "extras = u8"],
        vec!["skip(\"[0-9]x\", ignore(case), priority = 3)", "skip(\"0[a-z]\", priority = 1)", "extras = u8", "skip(\"é\", callback = |_| Skip)"],
        vec!["subpattern d = b\"[\\x80-\\xFF]\"", "utf8 = false", "skip(\"(?&d)+\")", "extras = u8"],
        vec!["utf8 = false", "subpattern d = \"(?-u:\\xff)\"", "error = E", "skip(\"x(?&d)\")"],
    ];
    let mut cases = vec![];
    for set in skips {
        let mut sources = vec![];
        for p in permutations(&set) {
            // a subpattern must stay before its use
            let pd = p.iter().position(|x| x.starts_with("subpattern d"));
            let pu = p.iter().position(|x| x.contains("(?&d)"));
            if let (Some(pd), Some(pu)) = (pd, pu) {
                if pd > pu {
                    continue;
                }
            }
            sources.push(format!("#[logos({})] enum T {{ #[token(\"zz\")] Z, #[regex(\"[a-z]{{3}}\", priority = 4)] W }}", p.join(", ")));
            // also split over several attributes
            sources.push(format!("{} enum T {{ #[token(\"zz\")] Z, #[regex(\"[a-z]{{3}}\", priority = 4)] W }}", p.iter().map(|x| format!("#[logos({x})]")).collect::<Vec<_>>().join(" ")));
        }
        cases.push((format!("logos items with several skips {set:?}"), sources));
    }
    cases
}

/// generic enums: `type T = ..` and `lifetime = ..` items in every order
/// type items that mention ANOTHER type parameter of the enum: whatever the answer is (the
/// unchanged tree refuses them), it must not depend on which of the two items is written first.
/// Compared by acceptance, and by output when accepted (diagnostics may name the items in the
/// order they were written).
pub fn c18_mutual_cases() -> Vec<(String, Vec<String>)> {
    let mut cases = vec![];
    for set in [vec!["type T = u32", "type U = Vec<T>"], vec!["type T = u32", "type U = Vec<T>", "extras = u8"], vec!["type U = (T, T)", "type T = &'s str", "skip \" \""], vec!["type T = Option<U>", "type U = Option<T>"]] {
        let sources: Vec<String> = permutations(&set).into_iter().map(|p| format!("#[logos({})] enum Tok<'s, T, U> {{ #[regex(\"a+\", cb)] A(T), #[regex(\"b+\", cb)] B(U) }}", p.join(", "))).collect();
        cases.push((format!("generic enum items referring to each other {set:?}"), sources));
        let sources: Vec<String> = permutations(&set).into_iter().map(|p| format!("{} enum Tok<'s, T, U> {{ #[regex(\"a+\", cb)] A(T), #[regex(\"b+\", cb)] B(U) }}", p.iter().map(|i| format!("#[logos({i})]")).collect::<Vec<_>>().join(" "))).collect();
        cases.push((format!("generic enum items referring to each other, one attribute each {set:?}"), sources));
    }
    cases
}

fn c18_eval_accept(desc: &str, sources: &[String]) -> (u64, u64, Vec<Violation>) {
    let (canon, canon_acc) = gen_tokens(&sources[0]);
    let mut v = vec![];
    for (i, s) in sources.iter().enumerate().skip(1) {
        let (t, acc) = gen_tokens(s);
        if (acc != canon_acc || (acc && t != canon)) && v.len() < 3 {
            v.push(viol(
                "ORDER-SENSITIVE",
                "c18",
                format!("{desc} #{i}"),
                format!("canonical order accepted={canon_acc}, this order accepted={acc}{}. canonical: {} | this: {}", if acc && canon_acc { "; outputs differ" } else { "" }, sources[0], s),
                json!({"sources": [sources[0], s], "dup": true}),
            ));
        }
    }
    (sources.len() as u64, sources.len() as u64 - 1, v)
}

pub fn c18_generic_cases() -> Vec<(String, Vec<String>)> {
    let sets: Vec<Vec<&str>> = vec![
        vec!["type T = &'a str", "lifetime = 'a"],
        vec!["type T = &'a str", "lifetime = 'a", "extras = u8", "skip \" \""],
        vec!["type T = u8", "type U = &'s str", "error = E"],
        vec!["lifetime = 'a", "extras = &'a str", "type T = Vec<&'a str>"],
        // no lifetime parameter on the enum: the lifetimes inside the concrete type are the user's
        vec!["type T = &'static str", "lifetime = none"],
        vec!["type T = &'static str", "lifetime = none", "extras = u8"],
        vec!["type T = Box<&'static [u8]>", "lifetime = none", "utf8 = false", "error = E"],
        vec!["type T = u8", "lifetime = none", "skip \" \""],
    ];
    let mut cases = vec![];
    for set in sets {
        let generics = if set.iter().any(|x| x.starts_with("type U")) {
            "<'s, T, U>"
        } else if set.contains(&"lifetime = none") {
            "<T>"
        } else {
            "<'a, T>"
        };
        let body = if generics.contains('U') { "#[regex(\"a+\", cb)] A(T), #[regex(\"b+\")] B(U)" } else { "#[regex(\"a+\")] A(T), #[token(\"b\")] B" };
        let sources: Vec<String> = permutations(&set).into_iter().map(|p| format!("#[logos({})] enum Tok{generics} {{ {body} }}", p.join(", "))).collect();
        cases.push((format!("generic enum items {set:?}"), sources));
    }
    cases
}

fn c18_eval_equiv(desc: &str, sources: &[String]) -> (u64, u64, Vec<Violation>) {
    let canon = gen_equiv(&sources[0]);
    let mut v = vec![];
    for (i, s) in sources.iter().enumerate().skip(1) {
        let g = gen_equiv(s);
        if g != canon && v.len() < 3 {
            v.push(viol(
                "ORDER-SENSITIVE",
                "c18",
                format!("{desc} #{i}"),
                format!("canonical order accepted={}, this order accepted={}; the lexers are not equivalent. canonical: {} | this: {}", canon.0, g.0, sources[0], s),
                json!({"sources": [sources[0], s], "equiv": true}),
            ));
        }
    }
    (sources.len() as u64, sources.len() as u64 - 1, v)
}

/// The same key given twice with DIFFERENT values, in both orders (one attribute and two): either
/// both orders are rejected, or both are accepted with the same output - "last one wins" would make
/// the lexer depend on the order of the items.
pub fn c18_dup_cases() -> Vec<(String, Vec<String>)> {
    let keys: [(&str, &str, &str, &str, &str); 9] = [
        ("crate", "crate = ::logos", "crate = other::logos", "", "A"),
        ("extras", "extras = u32", "extras = u64", "", "A"),
        ("error", "error = E", "error = F", "", "A"),
        ("error group", "error(E)", "error = F", "", "A"),
        ("utf8", "utf8 = true", "utf8 = false", "", "A"),
        ("lifetime", "lifetime = 'a", "lifetime = 'b", "<'a, 'b>", "A(&'a str, )"),
        ("export_dir", "export_dir = \"x\"", "export_dir = \"y\"", "", "A"),
        ("type", "type T = u8", "type T = u16", "<T>", "A(T)"),
        ("subpattern", "subpattern a = \"x\"", "subpattern a = \"y\"", "", "A"),
    ];
    let mut v = vec![];
    for (k, x, y, generics, variant) in keys {
        let body = if variant.contains('(') { format!("#[regex(\"q+\", cb)] {}", variant.replace(", )", ")")) } else { format!("#[regex(\"q+\")] {variant}") };
        v.push((format!("duplicate {k} (one attribute)"), vec![format!("#[logos({x}, {y})] enum T{generics} {{ {body} }}"), format!("#[logos({y}, {x})] enum T{generics} {{ {body} }}")]));
        v.push((format!("duplicate {k} (two attributes)"), vec![format!("#[logos({x})] #[logos({y})] enum T{generics} {{ {body} }}"), format!("#[logos({y})] #[logos({x})] enum T{generics} {{ {body} }}")]));
        v.push((format!("duplicate {k} (with another item between)"), vec![format!("#[logos({x}, skip \" \", {y})] enum T{generics} {{ {body} }}"), format!("#[logos({y}, skip \" \", {x})] enum T{generics} {{ {body} }}")]));
    }
    v
}

fn c18_eval_dup(desc: &str, sources: &[String]) -> (u64, u64, Vec<Violation>) {
    let (a, a_acc) = gen_tokens(&sources[0]);
    let (b, b_acc) = gen_tokens(&sources[1]);
    let mut v = vec![];
    if a_acc != b_acc || (a_acc && a != b) {
        v.push(viol(
            "ORDER-SENSITIVE",
            "c18",
            desc.to_string(),
            format!("the same key twice with different values: first order accepted={a_acc}, second order accepted={b_acc}{}. first: {} | second: {}", if a_acc && b_acc { " and the generated lexers differ (the last item silently wins)" } else { "" }, sources[0], sources[1]),
            json!({"sources": [sources[0], sources[1]], "dup": true}),
        ));
    }
    (2, 1, v)
}

fn c18_eval(desc: &str, sources: &[String]) -> (u64, u64, Vec<Violation>) {
    let (canon, canon_acc) = gen_tokens(&sources[0]);
    let mut v = vec![];
    let mut nontrivial = 0;
    for (i, s) in sources.iter().enumerate().skip(1) {
        nontrivial += 1;
        let (t, acc) = gen_tokens(s);
        if t != canon && v.len() < 3 {
            v.push(viol(
                "ORDER-SENSITIVE",
                "c18",
                format!("{desc} #{i}"),
                format!("canonical order accepted={canon_acc}, this order accepted={acc}; outputs differ. canonical: {} | this: {}", sources[0], s),
                json!({"sources": [sources[0], s]}),
            ));
        }
    }
    (sources.len() as u64, nontrivial, v)
}

/// long item lists (more items than any small table, scan limit or batch could hold): 9, 13 and 18
/// items with a dependency chain among the subpatterns; every order obtained by moving ONE item to
/// another position that keeps each subpattern behind the ones it uses
pub fn c18_many_items_cases() -> Vec<(String, Vec<String>)> {
    // (item text, indices of the items it depends on)
    let full: Vec<(&str, Vec<usize>)> = vec![
        ("subpattern s0 = \"[0-9]\"", vec![]),
        ("subpattern s1 = \"[a-f]\"", vec![]),
        ("subpattern s2 = \"_\"", vec![]),
        ("subpattern s3 = \"\\\\.\"", vec![]),
        ("subpattern c0 = \"(?&s0)+\"", vec![0]),
        ("subpattern c1 = \"(?&s0)|(?&s1)\"", vec![0, 1]),
        ("subpattern c2 = \"(?&c0)(?&s3)(?&c0)\"", vec![4, 3]),
        ("subpattern c3 = \"(?&c1)+(?&s2)?\"", vec![5, 2]),
        ("subpattern c4 = \"(?&c2)|(?&c3)\"", vec![6, 7]),
        ("skip \" +\"", vec![]),
        ("extras = Ex", vec![]),
        ("subpattern ws = \"[ \\\\t]\"", vec![]),
        ("subpattern c5 = \"(?&c4)(?&ws)\"", vec![8, 11]),
        ("error = Er", vec![]),
        ("subpattern s4 = \"x\"", vec![]),
        ("subpattern c6 = \"(?&s4)(?&c5)?\"", vec![14, 12]),
        ("subpattern s5 = \"y\"", vec![]),
        ("subpattern c7 = \"(?&c6)|(?&s5)\"", vec![15, 16]),
    ];
    let mut cases = vec![];
    for n in [9usize, 13, 18] {
        let items = &full[..n];
        let last_sub = (0..n).rev().find(|i| items[*i].0.starts_with("subpattern c")).unwrap();
        let user = items[last_sub].0.split_whitespace().nth(1).unwrap();
        let render = |order: &[usize]| format!("#[logos({})] enum T {{ #[token(\"zz\")] Z, #[regex(\"(?&{user})!\")] B, }}", order.iter().map(|i| items[*i].0).collect::<Vec<_>>().join(", "));
        let canon: Vec<usize> = (0..n).collect();
        let mut sources = vec![render(&canon)];
        for x in 0..n {
            for p in 0..n {
                if p == x {
                    continue;
                }
                let mut order = canon.clone();
                order.remove(x);
                order.insert(p, x);
                // every item behind its dependencies
                let pos = |i: usize| order.iter().position(|o| *o == i).unwrap();
                if (0..n).all(|i| items[i].1.iter().all(|d| pos(*d) < pos(i))) {
                    sources.push(render(&order));
                }
            }
        }
        cases.push((format!("long item list ({n} items, one item moved)"), sources));
    }
    cases
}

pub fn c18(a: &Args) -> Report {
    let mut rep = Report::new(&a.prop, "vgraph c18", &a.tier_name);
    rep.bounds.insert("rule".into(), "every subset (size >= 2) of the named arguments {priority, callback, ignore(case), allow_greedy} of #[token] / #[regex] / skip(...), with and without a positional callback, in every permutation; every sub-multiset (2..=5 items) of the #[logos(...)] items {skip, skip(..), extras, error, error(..), utf8, crate, subpattern a, subpattern b(uses a)} in every permutation that keeps a before b; 6 item sets with SEVERAL skips (equal and unequal priorities) in every permutation, in one attribute and split over several, compared by acceptance + canonical graph (leaves renumber); callback values with `<`, `<<`, turbofish and commas inside braces. A case is non-trivial when its order differs from the canonical (first) order. Oracle: generate()'s token string equals that of the canonical order.".into());
    let mut cases = c18_cases();
    cases.extend(c18_generic_cases());
    cases.extend(c18_many_items_cases());
    let n_text = cases.len();
    cases.extend(c18_skip_cases());
    let n_equiv = cases.len();
    cases.extend(c18_dup_cases());
    let n_dup = cases.len();
    cases.extend(c18_mutual_cases());
    let outs: Vec<(u64, u64, Vec<Violation>)> = cases
        .par_iter()
        .enumerate()
        .map(|(i, (d, s))| if i < n_text { c18_eval(d, s) } else if i < n_equiv { c18_eval_equiv(d, s) } else if i < n_dup { c18_eval_dup(d, s) } else { c18_eval_accept(d, s) })
        .collect();
    for ((d, s), (n, nt, v)) in cases.iter().zip(outs) {
        rep.count("evaluations", n);
        rep.count("distinct_nontrivial", nt);
        rep.count("programs", 1);
        if rep.samples.len() < 5 && s.len() > 2 && rep.counts["programs"] % 37 == 3 {
            rep.samples.push(json!({"case": d, "canonical": s[0], "a_permutation": s[s.len() - 1], "orders": s.len()}));
        }
        rep.violations.extend(v);
    }
    rep
}

// ------------------------------------------------------------------------------------ C10 (spellings of the flag)

/// `ignore(case)` written with a trailing comma, extra white space or line breaks is the same flag:
/// the generated code must equal that of the plain spelling, for token, regex and skip definitions
pub fn c10_spellings(rep: &mut Report) {
    let spellings = ["ignore(case,)", "ignore(case, )", "ignore( case )", "ignore(\ncase\n)", "ignore(\n    case,\n)"];
    let defs: [(&str, &str); 6] = [
        ("token", "enum T { #[token(\"kelvin\", IG)] A, #[regex(\"[a-z]+\", priority = 1)] W }"),
        ("token with priority", "enum T { #[token(\"if\", priority = 9, IG)] A, #[regex(\"[a-zA-Z]+\")] W }"),
        ("regex", "enum T { #[regex(\"sel[a-z]ct|from\", IG)] A, #[token(\"zz\")] Z }"),
        ("regex with callback", "enum T { #[regex(\"x[0-9a-f]+\", cb, IG)] A(u8), #[token(\"zz\")] Z }"),
        ("skip", "#[logos(skip(\"rem[a-z ]*\", IG))] enum T { #[token(\"zz\")] Z }"),
        ("byte token", "#[logos(utf8 = false)] enum T { #[token(b\"k\\xff\", IG)] A, #[token(\"zz\")] Z }"),
    ];
    for (what, d) in defs {
        let (canon, acc) = gen_tokens(&d.replace("IG", "ignore(case)"));
        let (plain, _) = gen_tokens(&d.replace(", IG", ""));
        rep.count("evaluations", 1);
        if !acc || canon == plain {
            rep.violations.push(viol("ICASE-SPELLING", "c10", format!("{what}: ignore(case)"), "the plain spelling is rejected or has no effect on the generated code".into(), json!({"src": d})));
            continue;
        }
        for sp in spellings {
            let (t, a) = gen_tokens(&d.replace("IG", sp));
            rep.count("evaluations", 1);
            rep.count("distinct_nontrivial", 1);
            if a && t != canon {
                rep.violations.push(viol("ICASE-SPELLING", "c10", format!("{what}: {}", sp.replace('\n', "\\n")), format!("the definition is accepted but the generated code differs from that of `ignore(case)`{}", if t == plain { ": it equals the code WITHOUT the flag" } else { "" }), json!({"src": d.replace("IG", sp), "canon": d.replace("IG", "ignore(case)")})));
            }
        }
    }
}

// ------------------------------------------------------------------------------------ C10 (forms of the literal)

/// The literal is a VALUE: however it is written in the source - plain escapes, `\x..` / `\u{..}`
/// escapes for every character, a raw string with as many `#` as it needs, a line continuation -
/// the generated code must be the same. Values: every regex metacharacter, quotes, a backslash at
/// the end, line feed, NUL, DEL, non-ASCII and non-BMP characters, `#`, text that looks like an
/// escape once un-escaped. As #[token], #[regex] (the value escaped for the regex by the harness)
/// and skip, with and without ignore(case).
pub fn c10_literal_forms(rep: &mut Report) {
    let values: Vec<&str> = vec![
        "a", "ab", ".", "a.b", "\\", "a\\", "\\n", "\"", "a\"b", "'", "\n", "a\nb", "\0", "\u{7f}", "#", "\"#", "r#\"x\"#", "é", "€x", "😊", "a+b*c?", "(x)", "[x]", "{2}", "x|y", "^x$", "\\x41", "\\u{41}",
        "\t", " ", "a b", "//", "/*", "k", "K", "ß", "\u{212a}", "\r\n", "\\\\", "$0", "\\d", "%s{}", "\u{feff}", "\u{10ffff}",
    ];
    fn plain(v: &str) -> String {
        format!("{v:?}")
    }
    fn all_unicode_escapes(v: &str) -> String {
        format!("\"{}\"", v.chars().map(|c| format!("\\u{{{:x}}}", c as u32)).collect::<String>())
    }
    fn hex_where_ascii(v: &str) -> String {
        format!("\"{}\"", v.chars().map(|c| if (c as u32) < 0x80 { format!("\\x{:02x}", c as u32) } else { format!("\\u{{{:X}}}", c as u32) }).collect::<String>())
    }
    fn raw(v: &str, extra: usize) -> Option<String> {
        if v.contains('\r') {
            return None; // a bare CR is not allowed in a raw string
        }
        let mut n = 0;
        while v.contains(&format!("\"{}", "#".repeat(n))) {
            n += 1;
        }
        let h = "#".repeat(n + extra);
        Some(format!("r{h}\"{v}\"{h}"))
    }
    fn continuation(v: &str) -> Option<String> {
        // a backslash-newline in the middle of the literal (skips the line break and leading blanks)
        let cs: Vec<char> = v.chars().collect();
        if cs.len() < 2 || cs[1].is_whitespace() {
            return None;
        }
        let (a, b): (String, String) = (cs[..1].iter().collect(), cs[1..].iter().collect());
        let (pa, pb) = (plain(&a), plain(&b));
        Some(format!("{}\\\n        {}", &pa[..pa.len() - 1], &pb[1..]))
    }
    let mut n_forms = 0u64;
    for v in &values {
        let val = v.to_string();
        let rx = regex_syntax::escape(&val);
        for (kind, value) in [("token", val.clone()), ("regex", rx.clone()), ("skip", rx.clone())] {
            for icase in [false, true] {
                let wrap = |lit: &str| {
                    let ic = if icase { ", ignore(case)" } else { "" };
                    match kind {
                        "skip" => format!("#[logos(skip({lit}{ic}))] enum T {{ #[token(\"zz\")] Z }}"),
                        _ => format!("enum T {{ #[{kind}({lit}{ic})] A, #[token(\"zz\")] Z }}"),
                    }
                };
                let canon_src = wrap(&plain(&value));
                let (canon, acc) = gen_tokens(&canon_src);
                rep.count("evaluations", 1);
                let mut forms: Vec<(&str, String)> = vec![("every character as \\u{..}", all_unicode_escapes(&value)), ("\\x.. for ASCII", hex_where_ascii(&value))];
                if let Some(r) = raw(&value, 0) {
                    forms.push(("raw string", r));
                }
                if let Some(r) = raw(&value, 2) {
                    forms.push(("raw string with two more #", r));
                }
                if let Some(c) = continuation(&value) {
                    forms.push(("line continuation", c));
                }
                for (what, lit) in forms {
                    let src = wrap(&lit);
                    if src.parse::<proc_macro2::TokenStream>().is_err() {
                        continue;
                    }
                    let (t, a) = gen_tokens(&src);
                    n_forms += 1;
                    rep.count("evaluations", 1);
                    rep.count("distinct_nontrivial", 1);
                    if (a != acc || t != canon) && rep.violations.iter().filter(|x| x.tag == "LITERAL-FORM").count() < 12 {
                        rep.violations.push(viol("LITERAL-FORM", "c10", format!("{kind} {:?}{} written as {what}: {lit}", value, if icase { " ignore(case)" } else { "" }), format!("accepted={a} (plain spelling: {acc}); the generated code differs from that of the plain spelling {}", plain(&value)), json!({"src": src, "canon": canon_src})));
                    }
                }
            }
        }
    }
    rep.observe("literal_forms_compared", n_forms);
}

// ------------------------------------------------------------------------------------ C08 (attribute level)

/// Equal-priority overlaps written in ways the pattern-level family cannot express: two attributes
/// on ONE variant, a skip next to a variant, two skips - with every combination of callbacks and
/// explicit priorities. The two patterns are either the same text (they overlap on everything) or
/// disjoint by construction, so the expected verdict needs no automaton:
/// conflict <=> same text and equal effective priority.
pub fn c08(a: &Args) -> Report {
    let mut rep = Report::new(&a.prop, "vgraph c08 (attribute-level ties)", &a.tier_name);
    rep.bounds.insert("rule".into(), "pairs of definitions (same text, or disjoint texts) x 5 callbacks each x 6 priority assignments x 5 placements (two attributes on one variant, two variants, skip + variant, two skip items, skip + skip in one attribute) x with/without ignore(case): the derive must report an ambiguity iff the texts are equal and the effective priorities are equal - whatever the callbacks; plus the SPELLING family: 26 ways of writing tokens / regexes with known finite languages (escapes, raw and byte strings, cased twins under ignore(case), equivalent regexes), every ordered pair x 4 priority assignments x 4 surroundings (alone, among 1 / 4 further tokens, two attributes on one variant): ambiguity iff the languages intersect and the effective priorities are equal. Non-trivial = the two definitions overlap.".into());
    let texts: [(&str, &str, &str, u32); 4] = [("regex", "[0-9]+", "[a-z]+", 2), ("token", "if", "while", 4), ("regex", "a|b", "c|d", 2), ("token", "é", "ü", 4)];
    let cbs = ["", ", |_| 1", ", |_| 2", ", cb_one", ", callback = cb_two"];
    // (explicit priority of the first, of the second); None = default (equal for equal texts)
    let prios: [(Option<u32>, Option<u32>); 6] = [(None, None), (Some(7), Some(7)), (Some(7), Some(8)), (Some(7), None), (None, Some(7)), (Some(1), Some(1))];
    let mut cases: Vec<(String, bool, bool)> = vec![];
    for (kind, t1, t_other, default_prio) in texts {
        // an explicit priority equal to the computed default of the other definition is a tie too
        let mut prios = prios.to_vec();
        prios.push((None, Some(default_prio)));
        prios.push((Some(default_prio), None));
        for same in [true, false] {
            let t2 = if same { t1 } else { t_other };
            for c1 in cbs {
                for c2 in cbs {
                    for &(p1, p2) in &prios {
                        for icase in [false, true] {
                            let arg = |t: &str, c: &str, p: Option<u32>| format!("\"{t}\"{c}{}{}", p.map(|p| format!(", priority = {p}")).unwrap_or_default(), if icase { ", ignore(case)" } else { "" });
                            let (a1, a2) = (arg(t1, c1, p1), arg(t2, c2, p2));
                            let sk = |x: &str| if kind == "token" { x.replace('|', "\\|") } else { x.to_string() };
                            let _ = sk;
                            let srcs = [
                                format!("enum T {{ #[{kind}({a1})] #[{kind}({a2})] A(u64), #[token(\"zz\")] Z }}"),
                                format!("enum T {{ #[{kind}({a1})] A(u64), #[token(\"zz\")] Z, #[{kind}({a2})] B(u64) }}"),
                                format!("#[logos(skip({a1}))] enum T {{ #[token(\"zz\")] Z, #[{kind}({a2})] B(u64) }}"),
                                format!("#[logos(skip({a1}))] #[logos(skip({a2}))] enum T {{ #[token(\"zz\")] Z }}"),
                                format!("#[logos(skip({a1}), skip({a2}))] enum T {{ #[token(\"zz\")] Z }}"),
                            ];
                            for (k, src) in srcs.into_iter().enumerate() {
                                // a skip literal is a regex: only the regex texts are used for skip placements
                                if k >= 2 && kind == "token" && !same {
                                    continue;
                                }
                                // a skip is a regex (priority by complexity), a token counts bytes: the
                                // defaults coincide only for ASCII texts
                                let chars = 2 * t1.chars().count() as u32;
                                let d1 = if k >= 2 && kind == "token" { chars } else { default_prio };
                                let d2 = if k >= 3 && kind == "token" { chars } else { default_prio };
                                let conflict = same && p1.unwrap_or(d1) == p2.unwrap_or(d2);
                                cases.push((src, conflict, same));
                            }
                        }
                    }
                }
            }
        }
    }
    // SPELLINGS: the same language written differently (escapes, raw strings, byte strings, a cased
    // twin under ignore(case), equivalent regexes). A tie is a property of the LANGUAGES; every way of
    // recognising "these two cannot overlap" from the text alone has to be wrong somewhere in here.
    // Each entry: (attribute, arguments, the language as an explicit finite set, default priority)
    {
        let lang = |v: &[&str]| -> BTreeSet<String> { v.iter().map(|x| x.to_string()).collect() };
        let entries: Vec<(&str, &str, BTreeSet<String>, u32)> = vec![
            ("token", "\"ab\"", lang(&["ab"]), 4),
            ("token", "b\"ab\"", lang(&["ab"]), 4),
            ("token", "\"\\x61b\"", lang(&["ab"]), 4),
            ("token", "\"a\\u{62}\"", lang(&["ab"]), 4),
            ("token", "r\"ab\"", lang(&["ab"]), 4),
            ("token", "r#\"ab\"#", lang(&["ab"]), 4),
            ("token", "\"ab\", ignore(case)", lang(&["ab", "aB", "Ab", "AB"]), 4),
            ("token", "\"AB\", ignore(case)", lang(&["ab", "aB", "Ab", "AB"]), 4),
            ("token", "\"aB\", ignore(case)", lang(&["ab", "aB", "Ab", "AB"]), 4),
            ("token", "\"AB\"", lang(&["AB"]), 4),
            ("token", "\"Ab\"", lang(&["Ab"]), 4),
            ("token", "\"ac\"", lang(&["ac"]), 4),
            ("token", "\"abc\"", lang(&["abc"]), 6),
            ("token", "\"é\"", lang(&["é"]), 4),
            ("token", "\"\\u{e9}\"", lang(&["é"]), 4),
            ("token", "b\"\\xc3\\xa9\"", lang(&["é"]), 4),
            ("token", "\"É\", ignore(case)", lang(&["é", "É"]), 4),
            ("regex", "\"ab\"", lang(&["ab"]), 4),
            ("regex", "\"a[b]\"", lang(&["ab"]), 4),
            ("regex", "\"(?:a)b\"", lang(&["ab"]), 4),
            ("regex", "\"(?i)ab\"", lang(&["ab", "aB", "Ab", "AB"]), 4),
            ("regex", "\"[aA][bB]\"", lang(&["ab", "aB", "Ab", "AB"]), 4),
            ("regex", "\"ab|AB\"", lang(&["ab", "AB"]), 4),
            ("regex", "\"a[bc]\"", lang(&["ab", "ac"]), 4),
            ("regex", "b\"ab\"", lang(&["ab"]), 4),
            ("regex", "\"é\"", lang(&["é"]), 2),
        ];
        let fillers = ["", ", #[token(\"zz\")] Z", ", #[token(\"zz\")] Z, #[token(\"if\")] If, #[token(\"else\")] Else, #[token(\"while\")] While"];
        for (i, (k1, a1, l1, d1)) in entries.iter().enumerate() {
            for (j, (k2, a2, l2, d2)) in entries.iter().enumerate() {
                if i == j {
                    continue;
                }
                let overlap = l1.intersection(l2).next().is_some();
                for (p1, p2) in [(None, None), (Some(9u32), Some(9u32)), (Some(9), Some(8)), (Some(*d2), None)] {
                    let arg = |a: &str, p: Option<u32>| format!("{a}{}", p.map(|p| format!(", priority = {p}")).unwrap_or_default());
                    let conflict = overlap && p1.unwrap_or(*d1) == p2.unwrap_or(*d2);
                    for fill in fillers {
                        cases.push((format!("enum T {{ #[{k1}({})] A, #[{k2}({})] B{fill} }}", arg(a1, p1), arg(a2, p2)), conflict, overlap));
                    }
                    cases.push((format!("enum T {{ #[{k1}({})] #[{k2}({})] A, #[token(\"zz\")] Z }}", arg(a1, p1), arg(a2, p2)), conflict, overlap));
                }
            }
        }
    }
    let outs: Vec<Option<Violation>> = cases
        .par_iter()
        .map(|(src, conflict, _)| {
            let g = vdrive::generate(src, false);
            if let Some(p) = &g.observed.panicked {
                return Some(viol("PANIC", "c08", src.clone(), format!("generate panicked: {p}"), json!({"src": src})));
            }
            let reported = g.observed.errors.iter().any(|e| e.contains("can match simultaneously"));
            let other: Vec<&String> = g.observed.errors.iter().filter(|e| !e.contains("can match simultaneously") && !e.contains("priority")).collect();
            if !other.is_empty() && !reported {
                // rejected for an unrelated reason: outside the domain of this family (must not happen; reported so that the family stays meaningful)
                return Some(viol("CONFLICT-SPURIOUS", "c08", src.clone(), format!("well-formed definition rejected: {:?}", other), json!({"src": src, "expect": conflict})));
            }
            if *conflict && !reported {
                Some(viol("CONFLICT-MISSED", "c08", src.clone(), "two definitions that match a common string at the same priority, but no ambiguity is reported".into(), json!({"src": src, "expect": true})))
            } else if !*conflict && reported {
                Some(viol("CONFLICT-SPURIOUS", "c08", src.clone(), format!("an ambiguity is reported although the definitions have different priorities or disjoint texts: {:?}", g.observed.errors.first()), json!({"src": src, "expect": false})))
            } else {
                None
            }
        })
        .collect();
    for ((_, conflict, same), o) in cases.iter().zip(outs) {
        rep.count("evaluations", 1);
        rep.count("programs", 1);
        if *same {
            rep.count("distinct_nontrivial", 1);
        }
        if *conflict {
            rep.count("expected_conflicts", 1);
        }
        if let Some(v) = o {
            if rep.violations.len() < 12 {
                rep.violations.push(v);
            }
        }
    }
    rep.samples.push(json!({"source": cases[7].0, "expect_conflict": cases[7].1}));
    rep
}

// ------------------------------------------------------------------------------------ C19

#[derive(Clone)]
pub struct Frag {
    pub text: String,
    /// the definition must be rejected (reference predicate), None = either outcome is fine
    pub must_reject: Option<&'static str>,
}

fn f(t: &str) -> Frag {
    Frag { text: t.to_string(), must_reject: None }
}
fn fr(t: &str, why: &'static str) -> Frag {
    Frag { text: t.to_string(), must_reject: Some(why) }
}

pub fn def_arg_frags() -> Vec<Frag> {
    // argument lists for #[token(...)] / #[regex(...)] / skip(...)
    vec![
        f("\"a\""), f("\"a\", cb"), f("\"a\", |lex| 1"), f("\"a\", priority = 3"), f("priority = 3"), f(""), f("\"a\","), f("\"a\",,"), f("\"a\" \"b\""),
        f("\"a\", priority = x"), f("\"a\", priority"), f("\"a\", priority(3)"), f("\"a\", priority = 3, priority = 4"),
        f("\"a\", callback = f, callback = g"), f("\"a\", f, callback = g"), f("\"a\", callback = f"), f("\"a\", ignore(case), ignore(case)"),
        f("\"a\", ignore(nope)"), f("\"a\", ignore"), f("\"a\", ignore = case"), f("\"a\", ignore(case,)"), f("\"a\", ignore(case case)"), f("\"a\", ignore()"),
        f("\"a\", ignore(ascii_case)"), f("\"a\", ignore(case, nope)"),
        f("\"a\", allow_greedy = true, allow_greedy = false"), f("\"a\", allow_greedy = maybe"), f("\"a\", allow_greedy"), f("\"a\", unknown = 1"), f("\"a\", unknown"),
        f("\"a\", unknown(1)"), f("1"), f("'a'"), f("b'a'"), f("r\"a\""), f("b\"a\""), f("\"a\", |a, b| 1"), f("\"a\", ||"), f("\"a\", |lex|"), f("\"a\", callback = |lex|"),
        f("\"a\", callback ="), f("\"a\", priority = 18446744073709551616"), f("\"a\", priority = -1"), f("\"a\", f, g"), f("\"a\", 5"), f("\"a\", priority = 3,"),
        f("\"a\", ignore(case), priority = 3"), f("\"a\", callback = path::to::f"), f("\"a\", path::to::f"), f("\"a\", |lex| { lex.slice().len() }"), f("x"), f("x = 3"),
        f("\"a\", callback = f, ignore(case), callback = g"), f("\"a\", priority = 1, callback = |l| 2, callback = |l| 3"),
    ]
}

pub fn pattern_frags() -> Vec<Frag> {
    // regex sources (as #[regex("...")])
    vec![
        f("a"), fr("a*", "nullable"), fr("", "nullable"), fr("a?b?", "nullable"), fr("(?:)", "nullable"), fr("$", "nullable"), fr("(?m:^)", "nullable"),
        fr("(?-u:\\\\b)a", "start look-behind"), fr("^a", "start look-behind"), fr("(?m:^)a", "start look-behind"), fr("\\\\bx", "unsupported unicode word boundary"),
        fr("x\\\\b", "unsupported unicode word boundary"), fr("a(?=b)", "unsupported look-ahead group"), fr("(a)\\\\1", "unsupported back-reference"), fr("(a+)-\\\\1", "unsupported back-reference"), fr("a\\\\7", "unsupported back-reference"), fr("a\\\\0", "parse error"), fr("a\\\\8", "parse error"),
        fr(".*", "nullable"), fr("a.*", "greedy dot"), fr("(a.*)", "greedy dot"), fr("a.+", "greedy dot"), fr("a(.*b)?", "greedy dot"), fr("(a.+)+b", "greedy dot"),
        fr("a[^\\\\n]*", "greedy dot"), fr("a(?s:.)*", "greedy dot"), fr("a(?:.*)b", "greedy dot"), fr("(?:a|b.*)c", "greedy dot"), fr("a(?:.*){2}", "greedy dot"), fr("a.{2,}", "greedy dot"), fr("[^\\\\n]{3,}b", "greedy dot"), fr("a(?s:.){2,}", "greedy dot"), fr("a(.{5,}b)?", "greedy dot"), fr("(.){1,}x", "greedy dot"), fr("//[^\\r\\n]*", "greedy dot"), fr("#(?R).+", "greedy dot"), fr("a(?R:.)*b", "greedy dot"), fr("a(?sR:.)+", "greedy dot"), fr("a[^\\n\\r]{2,}", "greedy dot"), fr("x((.))+", "greedy dot"), fr("#(?P<rest>(.))*", "greedy dot"), fr("z(?P<a>(?P<b>[^\\n]))*", "greedy dot"), fr("q(((.)))*", "greedy dot"), fr("q(?:((?:(.))))+r", "greedy dot"), fr("#(?:.{1,5})*", "greedy dot"), fr("a(?:(.)?)+b", "greedy dot"), fr("a(?:.{2}){3,}", "greedy dot"), fr("a((.){1,2})*", "greedy dot"), fr("a(?:.{1,5}?)*b", "greedy dot"), f("a(?:.{1,5})*?b"), f("a(?:.{1,5}){0,9}"), f("a.{2,}?b"), f("a.{2,9}"),
        f("a.*?b"), f("a.+?b"), f("a.{0,5}"), fr("(?&undef)", "undefined subpattern"), fr("a(?&undef)b", "undefined subpattern"), fr("[", "parse error"),
        fr("\\\\p{Nope}", "parse error"), fr("a{2,1}", "parse error"), fr("(?i", "parse error"), fr("\\\\q", "parse error"), fr("(?P<n>a)(?P<n>b)", "parse error"),
        f("(?x) a b # c"), f("[a&&b]x"), f("\\\\x{110000}"), f("a{1000}"),
        // a class that matches nothing, alone and under every operator that makes it optional
        f("[a&&b]"), f("[a&&b]+"), fr("[a&&b]*", "nullable"), fr("[a&&b]?", "nullable"), fr("(?:[a&&b]y)*", "nullable"), fr("[^\\\\x00-\\\\x{10FFFF}]*", "nullable"), fr("x?[a&&b]*", "nullable"),
        fr("(?:[a&&b]|)", "nullable"), f("[a&&b]|x"), fr("(?:[a&&b]*)+", "nullable"), fr("[a&&b]{0,3}", "nullable"), f("x[a&&b]*"),
    ]
}

pub fn logos_frags() -> Vec<Frag> {
    vec![
        f("skip"), f("skip = \"a\""), f("skip \"a\""), f("skip(\"a\")"), f("skip(\"a\", priority = 1)"), f("skip()"), f("skip(1)"), fr("skip \"a*\"", "nullable"),
        f("skip(\"a\", cb)"), f("skip(\"a\", callback = f, callback = g)"), f("skip(\"a\", f, callback = g)"), f("skip \"a\" \"b\""), f("skip(\"a\", priority = 1, priority = 2)"),
        fr("skip \"b.*\"", "greedy dot"), f("skip(\"b.*\", allow_greedy = true)"), fr("skip(\"(?&nope)\")", "undefined subpattern"),
        f("extras = E"), f("extras"), f("extras(E)"), f("extras = E, extras = F"), f("error = E"), f("error(E)"), f("error(E, f)"), f("error(E, callback = f)"),
        f("error(E, callback = f, callback = g)"), f("error(E, f, callback = g)"), f("error()"), f("error(E, unknown = 1)"), f("error = E, error = F"), f("error(E), error = F"),
        f("error(E, f, g)"), f("error(E, |lex| 1)"), f("error(E, callback = |a, b| 1)"), f("error"), f("error = "), f("error(3)"),
        f("utf8 = false"), f("utf8 = 3"), f("utf8"), f("utf8 = true, utf8 = true"), f("utf8(false)"), f("crate = ::logos"), f("crate"), f("crate = a, crate = b"),
        f("lifetime = 'x"), f("lifetime = 'x, lifetime = 'y"), f("lifetime"), f("lifetime = x"), f("export_dir = \"x\", export_dir = \"y\""), f("export_dir = 3"), f("export_dir"),
        f("subpattern a = \"x\""), f("subpattern a = \"x\", subpattern a = \"y\""), f("subpattern a"), f("subpattern = \"x\""), f("subpattern a = 3"), f("subpattern a = \"[\""),
        f("subpattern a = \"(?&a)\""), f("subpattern a = \"(?&b)\", subpattern b = \"x\""), f("subpattern a \"x\""), f("subpattern a = b\"\\xff\""),
        f("source = X"), f("type T = u8"), f("type = u8"), f("type T"), f("unknown"), f("unknown = 1"), f("unknown(1)"), f("\"lit\""), f("= 3"), f(","), f(""),
    ]
}

pub fn variant_frags() -> Vec<Frag> {
    vec![f("A"), fr("A()", "empty tuple variant"), f("A(u8)"), f("A(u8,)"), fr("A(u8, u8)", "multi-field variant"), fr("A {}", "named-field variant"), fr("A { x: u8 }", "named-field variant"), f("A = 3")]
}

pub fn generics_frags() -> Vec<Frag> {
    let w = "type parameter without a concrete type";
    vec![f(""), f("<'a>"), f("<'a, 'b>"), fr("<T>", w), f("<const N: usize>"), fr("<T: Copy>", w), fr("<'a, T>", w), fr("<S, T>", w), fr("<'a, 'b, T: 'a>", w)]
}

#[derive(Clone, serde::Serialize, serde::Deserialize)]
pub struct C19Case {
    pub desc: String,
    pub src: String,
    pub must_reject: Option<String>,
}

pub fn c19_cases(tier: Tier) -> Vec<C19Case> {
    let mut v: Vec<C19Case> = vec![];
    let mut push = |desc: String, src: String, mr: Option<&'static str>| v.push(C19Case { desc, src, must_reject: mr.map(|s| s.to_string()) });
    let da = def_arg_frags();
    let pf = pattern_frags();
    let lf = logos_frags();
    let vf = variant_frags();
    let gf = generics_frags();
    // singles
    for a in &da {
        for attr in ["token", "regex"] {
            push(format!("{attr} args"), format!("enum T {{ #[{attr}({})] A }}", a.text), a.must_reject);
        }
        push("skip args".into(), format!("#[logos(skip({}))] enum T {{ #[token(\"z\")] Z }}", a.text), a.must_reject);
    }
    for attr in ["token", "regex", "logos", "error", "end", "extras"] {
        push("bare attr".into(), format!("enum T {{ #[{attr}] A }}"), None);
        push("attr = lit".into(), format!("enum T {{ #[{attr} = \"a\"] A }}"), None);
        push("enum-level bare attr".into(), format!("#[{attr}] enum T {{ #[token(\"a\")] A }}"), None);
    }
    for p in &pf {
        push("regex pattern".into(), format!("enum T {{ #[regex(\"{}\")] A }}", p.text), p.must_reject);
        push("regex pattern allow_greedy".into(), format!("enum T {{ #[regex(\"{}\", allow_greedy = true)] A }}", p.text), p.must_reject.filter(|w| *w != "greedy dot"));
        push("regex pattern allow_greedy = false".into(), format!("enum T {{ #[regex(\"{}\", allow_greedy = false)] A }}", p.text), p.must_reject);
        push("skip pattern allow_greedy = false".into(), format!("#[logos(skip(\"{}\", allow_greedy = false))] enum T {{ #[token(\"z\")] Z }}", p.text), p.must_reject);
        push("skip pattern".into(), format!("#[logos(skip \"{}\")] enum T {{ #[token(\"z\")] Z }}", p.text), p.must_reject);
        push("subpattern body".into(), format!("#[logos(subpattern s = \"{}\")] enum T {{ #[regex(\"x(?&s)\")] A }}", p.text), p.must_reject.filter(|w| *w != "nullable" && *w != "start look-behind"));
        // the same sources as BYTE-STRING literals of a byte lexer (Unicode mode off: \b is the ASCII
        // boundary there; sources that are not plain ASCII are left out, a byte string cannot hold them)
        if p.text.is_ascii() {
            let mr = p.must_reject.filter(|w| *w != "unsupported unicode word boundary");
            push("regex byte-string pattern".into(), format!("#[logos(utf8 = false)] enum T {{ #[regex(b\"{}\")] A }}", p.text), mr);
            push("skip byte-string pattern".into(), format!("#[logos(utf8 = false)] #[logos(skip(b\"{}\"))] enum T {{ #[token(\"z\")] Z }}", p.text), mr);
            push("byte-string subpattern body".into(), format!("#[logos(utf8 = false)] #[logos(subpattern s = b\"{}\")] enum T {{ #[regex(\"x(?&s)\")] A }}", p.text), mr.filter(|w| *w != "nullable" && *w != "start look-behind"));
        }
    }
    for l in &lf {
        push("logos item".into(), format!("#[logos({})] enum T {{ #[token(\"z\")] Z }}", l.text), l.must_reject);
    }
    for va in &vf {
        for g in &gf {
            push("variant x generics".into(), format!("enum T{} {{ #[token(\"a\")] {} }}", g.text, va.text), va.must_reject.or(g.must_reject));
            push("variant x generics (regex cb)".into(), format!("enum T{} {{ #[regex(\"a+\", cb)] {} }}", g.text, va.text), va.must_reject.or(g.must_reject));
            // some, but not all, type parameters assigned
            if g.text.contains("S, T") {
                push("variant x generics".into(), format!("#[logos(type S = u8)] enum T{} {{ #[token(\"a\")] {} }}", g.text, va.text), va.must_reject.or(g.must_reject));
                push("variant x generics".into(), format!("#[logos(type T = u8, type S = &str)] enum T{} {{ #[token(\"a\")] {} }}", g.text, va.text), va.must_reject);
            }
        }
        push("variant no attr".into(), format!("enum T {{ {} , #[token(\"b\")] B }}", va.text), va.must_reject);
    }
    push("empty enum".into(), "enum T {}".into(), None);
    push("no patterns".into(), "enum T { A, B }".into(), None);
    push("only skip".into(), "#[logos(skip \"a\")] enum T { }".into(), None);
    // pairs
    for (i, a) in lf.iter().enumerate() {
        for b in lf.iter().skip(if tier == Tier::Thorough { 0 } else { i }) {
            let mr = a.must_reject.or(b.must_reject);
            push("logos item pair (one attribute)".into(), format!("#[logos({}, {})] enum T {{ #[token(\"z\")] Z }}", a.text, b.text), mr);
            push("logos item pair (two attributes)".into(), format!("#[logos({})] #[logos({})] enum T {{ #[token(\"z\")] Z }}", a.text, b.text), mr);
        }
    }
    for a in &da {
        for b in &da {
            // two attributes on one variant / on two variants
            push("def args pair".into(), format!("enum T {{ #[token({})] #[regex({})] A }}", a.text, b.text), None);
        }
        for va in &vf {
            push("def args x variant".into(), format!("enum T {{ #[regex({})] {} }}", a.text, va.text), va.must_reject);
        }
        for l in &lf {
            push("def args x logos item".into(), format!("#[logos({})] enum T {{ #[token({})] A }}", l.text, a.text), l.must_reject);
        }
    }
    for p in &pf {
        for q in &pf {
            let mr = p.must_reject.or(q.must_reject);
            push("pattern pair".into(), format!("enum T {{ #[regex(\"{}\")] A, #[regex(\"{}\", priority = 50)] B }}", p.text, q.text), mr);
        }
        for l in &lf {
            push("pattern x logos item".into(), format!("#[logos({})] enum T {{ #[regex(\"{}\")] A }}", l.text, p.text), p.must_reject.or(l.must_reject));
        }
    }
    // unknown NAMES in the diagnostics: every known argument / item / flag name with one character
    // replaced by a 2-, 3- or 4-byte letter at every position (whatever a diagnostic does with the
    // name - cut it, compare prefixes, suggest a neighbour - must work for every alignment)
    for name in ["priority", "callback", "ignore", "allow_greedy", "skip", "extras", "error", "utf8", "crate", "subpattern", "type", "lifetime", "source", "case", "ascii_case", "export_dir", "a", "ab", "abc"] {
        let chars: Vec<char> = name.chars().collect();
        for i in 0..=chars.len() {
            for sub in ['ï', '中', '𐐀'] {
                for insert in [false, true] {
                    if i == chars.len() && !insert {
                        continue;
                    }
                    let mut c = chars.clone();
                    if insert {
                        c.insert(i, sub);
                    } else {
                        c[i] = sub;
                    }
                    let n: String = c.into_iter().collect();
                    if n == "type" || n == "crate" {
                        continue;
                    }
                    push("unknown name: token argument".into(), format!("enum T {{ #[token(\"a\", {n} = 3)] A }}"), Some("unknown argument"));
                    push("unknown name: regex argument group".into(), format!("enum T {{ #[regex(\"a\", {n}(case))] A }}"), Some("unknown argument"));
                    push("unknown name: ignore flag".into(), format!("enum T {{ #[token(\"a\", ignore({n}))] A }}"), Some("unknown flag"));
                    push("unknown name: skip argument".into(), format!("#[logos(skip(\"a\", {n} = 3))] enum T {{ #[token(\"z\")] Z }}"), Some("unknown argument"));
                    push("unknown name: logos item".into(), format!("#[logos({n} = \"x\")] enum T {{ #[token(\"z\")] Z }}"), Some("unknown item"));
                    push("unknown name: logos item group".into(), format!("#[logos({n}(E))] enum T {{ #[token(\"z\")] Z }}"), Some("unknown item"));
                    push("unknown name: logos item literal".into(), format!("#[logos({n} \"x\")] enum T {{ #[token(\"z\")] Z }}"), Some("unknown item"));
                    push("unknown name: error argument".into(), format!("#[logos(error(E, {n} = f))] enum T {{ #[token(\"z\")] Z }}"), Some("unknown argument"));
                    push("unknown name: keyword item".into(), format!("#[logos({n} x = \"a\")] enum T {{ #[token(\"z\")] Z }}"), Some("unknown item"));
                }
            }
        }
    }
    // VALUE positions x every kind of Rust literal / token that can stand there: whatever kind of token
    // is written where a number, a path, a string or a flag is expected, the derive has to answer with
    // a diagnostic (or accept it) - conversions between literal kinds must not panic
    let values = [
        "3", "3usize", "3u8", "3i8", "1_000", "0x10", "0b11", "0o7", "0", "007", "2.5", "1e3", "2.", "2.5f32", "1f64", "1e400", "-3", "- 3", "+3", "-2.5",
        "18446744073709551615", "18446744073709551616", "340282366920938463463374607431768211456", "99999999999999999999999999999999999999999999",
        "'a'", "b'a'", "'\\n'", "'é'", "\"s\"", "r\"s\"", "r#\"s\"#", "b\"s\"", "br\"s\"", "br#\"s\"#", "c\"s\"", "\"\"", "b\"\"", "r\"\"", "\"é\"", "b\"\\xff\"", "\"\\u{10FFFF}\"",
        "true", "false", "x", "x::y", "::x", "r#type", "()", "(3)", "[3]", "{3}", "(case)", "'x", "'static", "'_", "_", "!", "&x", "3 3", "3 = 3", "|l| 3", "\"a\" \"b\"",
        "self", "Self", "crate", "super::x", "fn", "<T>", "x<T>", "Vec<u8>", "&'a str", "*", "..", "3..4", "#", "$x", "x!", "x!()", "3 as usize", "1 + 2", "u8", "usize", "3_", "0x", "1__0",
    ];
    let def_pos = ["{v}", "\"a\", {v}", "\"a\", priority = {v}", "\"a\", callback = {v}", "\"a\", ignore({v})", "\"a\", ignore {v}", "\"a\", allow_greedy = {v}", "\"a\", priority({v})", "\"a\", ignore = {v}", "\"a\", priority {v}", "\"a\", {v} = 3", "{v}, priority = 3"];
    let logos_pos = [
        "skip {v}", "skip({v})", "skip = {v}", "skip(\"a\", {v})", "skip(\"a\", priority = {v})", "extras = {v}", "extras({v})", "error = {v}", "error({v})", "error(E, {v})", "error(E, callback = {v})", "utf8 = {v}", "utf8({v})", "crate = {v}", "lifetime = {v}",
        "export_dir = {v}", "source = {v}", "subpattern a = {v}", "subpattern {v} = \"x\"", "subpattern {v}", "type T = {v}", "type {v} = u8", "type {v}", "{v}", "{v} = 3", "{v}(3)", "{v} \"x\"",
    ];
    for val in values {
        for pos in def_pos {
            let args = pos.replace("{v}", val);
            for attr in ["token", "regex"] {
                push("value kind: def argument".into(), format!("enum T {{ #[{attr}({args})] A }}"), None);
            }
            push("value kind: skip argument".into(), format!("#[logos(skip({args}))] enum T {{ #[token(\"z\")] Z }}"), None);
        }
        for pos in logos_pos {
            push("value kind: logos item".into(), format!("#[logos({})] enum T {{ #[token(\"z\")] Z }}", pos.replace("{v}", val)), None);
            push("value kind: logos item (generic enum)".into(), format!("#[logos({})] enum T<'a, T> {{ #[regex(\"z+\", cb)] Z(T), #[token(\"y\")] Y(&'a str) }}", pos.replace("{v}", val)), None);
        }
        push("value kind: discriminant".into(), format!("enum T {{ #[token(\"a\")] A = {val} }}"), None);
        push("value kind: attribute value".into(), format!("enum T {{ #[token = {val}] A }}"), None);
        push("value kind: attribute value".into(), format!("#[logos = {val}] enum T {{ #[token(\"a\")] A }}"), None);
    }
    // the TEXT of a pattern inside the diagnostics: every reason that prints a pattern x sources of
    // every byte length in a window x every alignment of 2-, 3- and 4-byte characters (front padding
    // 0..3), plus characters that mean something to format strings, string literals and proc-macro
    // token printing. A diagnostic must be produced for each; the derive must not panic on any.
    let (lo, hi) = if tier == Tier::Thorough { (8usize, 420usize) } else { (60, 150) };
    let words = ["así", "€uro", "😊k", "mañana", "señor", "x", "\\{y\\}", "q\\\"r", "%s", "ÿ", "año"];
    for len in lo..=hi {
        for pad in 0..4usize {
            let mut body = "z".repeat(pad);
            let mut i = 0;
            while body.len() < len {
                if !body.is_empty() {
                    body.push('|');
                }
                body.push_str(words[(i + len) % words.len()]);
                i += 1;
            }
            // plain text of the same size without metacharacters, for #[token]
            let plain: String = body.chars().filter(|c| !"|\\{}\"%".contains(*c)).collect();
            push("diagnostic text: nullable regex".into(), format!("enum T {{ #[regex(\"(?:{body})*\")] A }}"), Some("nullable"));
            push("diagnostic text: nullable skip".into(), format!("#[logos(skip \"(?:{body})*\")] enum T {{ #[token(\"0\")] Z }}"), Some("nullable"));
            push("diagnostic text: regex conflict".into(), format!("enum T {{ #[regex(\"(?:{body})\")] A, #[regex(\"(?:{body})\")] B }}"), Some("equal-priority overlap"));
            push("diagnostic text: token conflict".into(), format!("enum T {{ #[token(\"{plain}\")] A, #[token(\"{plain}\")] B }}"), Some("equal-priority overlap"));
            push("diagnostic text: token vs skip conflict".into(), format!("#[logos(skip(\"(?:{body})\", priority = 7))] enum T {{ #[regex(\"(?:{body})\", priority = 7)] A }}"), Some("equal-priority overlap"));
            push("diagnostic text: non-UTF-8".into(), format!("enum T {{ #[regex(\"(?:{body})(?-u:\\\\xff)\")] A }}"), Some("not UTF-8"));
            push("diagnostic text: greedy".into(), format!("enum T {{ #[regex(\"(?:{body}).*\")] A }}"), Some("greedy dot"));
            push("diagnostic text: undefined subpattern".into(), format!("enum T {{ #[regex(\"(?:{body})(?&nope)\")] A }}"), Some("undefined subpattern"));
            push("diagnostic text: unparsable".into(), format!("enum T {{ #[regex(\"(?:{body})(\")] A }}"), Some("unparsable"));
            push("diagnostic text: nullable subpattern user".into(), format!("#[logos(subpattern s = \"(?:{body})?\")] enum T {{ #[regex(\"(?&s)\")] A }}"), Some("nullable"));
            push("diagnostic text: accepted control".into(), format!("enum T {{ #[regex(\"(?:{body})\")] A, #[token(\"0{plain}\")] B }}"), None);
        }
    }
    v
}

fn c19_eval(c: &C19Case) -> Option<Violation> {
    // the harness' own source must be lexable; otherwise the case is skipped
    if c.src.parse::<proc_macro2::TokenStream>().is_err() {
        return None;
    }
    let g = vdrive::generate(&c.src, false);
    if let Some(p) = &g.observed.panicked {
        if p.starts_with("harness:") {
            return None;
        }
        if p.contains("Logos can only be derived for enums") {
            return None;
        }
        return Some(viol("PANIC", "c19", format!("{}: {}", c.desc, c.src), format!("generate() panicked: {p}"), json!({"case": c})));
    }
    if let (Some(why), true) = (&c.must_reject, g.observed.accepted) {
        let tag = match why.as_str() {
            "greedy dot" => "GREEDY-ACCEPTED",
            "nullable" => "NULLABLE-ACCEPTED",
            _ => "MUSTREJECT-ACCEPTED",
        };
        return Some(viol(tag, "c19", format!("{}: {}", c.desc, c.src), format!("must be rejected ({why}) but an implementation was generated"), json!({"case": c})));
    }
    if let Some(t) = &g.tokens {
        if syn_parse_file(&t.to_string()).is_err() {
            return Some(viol("OUTPUT-NOT-RUST", "c19", format!("{}: {}", c.desc, c.src), "the derive's output does not parse as Rust items".into(), json!({"case": c})));
        }
    }
    None
}

fn syn_parse_file(s: &str) -> Result<(), ()> {
    // proc_macro2 re-lexing is the cheap proxy available here; full rustc parsing is done by vprobe
    s.parse::<proc_macro2::TokenStream>().map(|_| ()).map_err(|_| ())
}

pub fn c19(a: &Args) -> Report {
    let mut rep = Report::new(&a.prop, "vgraph c19 (library path)", &a.tier_name);
    rep.bounds.insert("rule".into(), "attribute grammar: every single item of {token/regex/skip argument lists, regex sources, #[logos(..)] items, variant shapes x generics} and ALL PAIRS of items (depth 2), each run through catch_unwind(logos_codegen::generate). Non-trivial = the case is malformed, duplicated or carries a must-reject predicate (everything except the few well-formed singles). Oracles: no panic; must-reject predicate => compile_error! in the output.".into());
    let cases = c19_cases(a.tier);
    let outs: Vec<Option<Violation>> = cases.par_iter().map(c19_eval).collect();
    let mut distinct = BTreeSet::new();
    for (c, o) in cases.iter().zip(outs) {
        rep.count("evaluations", 1);
        if distinct.insert(c.src.clone()) {
            rep.count("distinct_nontrivial", 1);
        }
        if c.must_reject.is_some() {
            rep.count("must_reject_cases", 1);
        }
        if let Some(v) = o {
            rep.violations.push(v);
        }
        if rep.samples.len() < 6 && rep.counts["evaluations"] % 3001 == 17 {
            rep.samples.push(json!({"desc": c.desc, "source": c.src, "must_reject": c.must_reject}));
        }
    }
    rep
}

// ------------------------------------------------------------------------------------ C19 / C18: token sequences

/// All sequences of attribute TOKENS up to a length bound (small-scope exhaustive, no hand-picked
/// shapes): argument lists of #[token] / #[regex] / skip(..) and item lists of #[logos(..)], built
/// from an alphabet of the tokens that mean something there. Oracles: the derive never panics and
/// its output lexes as Rust (C19); every ACCEPTED list is split at its commas and all permutations
/// of the order-free items must be accepted with the same output (C18) - the accepted lists are
/// found by the exploration itself.
pub fn c19seq(a: &Args) -> Report {
    let mut rep = Report::new(&a.prop, "vgraph c19seq (token sequences)", &a.tier_name);
    let thorough = a.tier == Tier::Thorough;
    let def_alpha: Vec<&str> = vec!["\"a\"", "b\"a\"", ",", "priority", "=", "3", "callback", "cb", "|lex| 1", "ignore", "(case)", "(ascii_case)", "allow_greedy", "true", "x::y", "()"];
    let logos_alpha: Vec<&str> = vec!["skip", "\"a\"", "(\"b\")", "(\"b\", cb)", ",", "=", "extras", "E", "error", "(E)", "(E, cb)", "utf8", "false", "crate", "::logos", "subpattern", "a", "type", "T", "lifetime", "'x", "none", "source", "export_dir"];
    let (dlen, llen) = if thorough { (5, 5) } else { (4, 4) };
    rep.bounds.insert("rule".into(), format!("all token sequences of length <= {dlen} over {} tokens as the argument list of #[token], #[regex] and #[logos(skip(..))], and of length <= {llen} over {} tokens as the item list of #[logos(..)], each through catch_unwind(generate). Oracles: no panic, output lexes as Rust; every accepted comma-separated list is re-run in every permutation of its order-free items (at most 5) and must give the same output. Non-trivial = the sequence is accepted, or malformed in a way that reaches the attribute parser (it lexes as Rust tokens).", def_alpha.len(), logos_alpha.len()));
    fn seqs(alpha: &[&str], max: usize) -> Vec<Vec<usize>> {
        let mut out: Vec<Vec<usize>> = vec![vec![]];
        let mut lo = 0;
        for _ in 0..max {
            let hi = out.len();
            for i in lo..hi {
                for t in 0..alpha.len() {
                    let mut v = out[i].clone();
                    v.push(t);
                    out.push(v);
                }
            }
            lo = hi;
        }
        out
    }
    // a sequence is pruned when it can obviously not reach anything new: two commas / two `=` in a row
    // are kept (they are the malformed cases), nothing is pruned - the space is small enough
    let forms: Vec<(&str, &Vec<&str>, usize, fn(&str) -> String)> = vec![
        ("token", &def_alpha, dlen, |x| format!("enum T {{ #[token({x})] A }}")),
        ("regex", &def_alpha, dlen, |x| format!("enum T {{ #[regex({x})] A }}")),
        ("skip", &def_alpha, dlen, |x| format!("#[logos(skip({x}))] enum T {{ #[token(\"zz\")] Z }}")),
        ("logos", &logos_alpha, llen, |x| format!("#[logos({x})] enum T<T> {{ #[token(\"zz\")] Z, #[regex(\"y+\", cb)] Y(T) }}")),
        ("logos (plain enum)", &logos_alpha, llen, |x| format!("#[logos({x})] enum T {{ #[token(\"zz\")] Z }}")),
    ];
    for (name, alpha, max, wrap) in forms {
        let all = seqs(alpha, max);
        rep.count("programs", all.len() as u64);
        let results: Vec<(u64, u64, Vec<Violation>)> = all
            .par_chunks(2048)
            .map(|chunk| {
                let (mut accepted, mut perms_run) = (0u64, 0u64);
                let mut vs: Vec<Violation> = vec![];
                // every sequence is written twice: with a blank between the tokens, and WITHOUT any (`"a",cb`,
                // `callback=|lex| 1`, `priority=3,ignore(case)`): where one punctuation character directly
                // follows another the compiler hands them over as joint tokens - how a list is spaced
                // must not decide what it means, nor in which orders it is accepted
                for (seq, glue) in chunk.iter().flat_map(|s| [(s, " "), (s, "")]) {
                    let text = seq.iter().map(|t| alpha[*t]).collect::<Vec<_>>().join(glue);
                    if glue.is_empty() && seq.len() < 2 {
                        continue;
                    }
                    let src = wrap(&text);
                    if src.parse::<proc_macro2::TokenStream>().is_err() {
                        continue;
                    }
                    let g = vdrive::generate(&src, false);
                    if let Some(p) = &g.observed.panicked {
                        if !p.starts_with("harness:") && vs.len() < 4 {
                            vs.push(viol("PANIC", "c19", format!("{name} token sequence: {src}"), format!("generate() panicked: {p}"), json!({"case": {"desc": name, "src": src, "must_reject": null}})));
                        }
                        continue;
                    }
                    let out = match &g.tokens {
                        Some(t) => t.to_string(),
                        None => continue,
                    };
                    if out.parse::<proc_macro2::TokenStream>().is_err() && vs.len() < 4 {
                        vs.push(viol("OUTPUT-NOT-RUST", "c19", format!("{name} token sequence: {src}"), "the derive's output does not lex as Rust".into(), json!({"case": {"desc": name, "src": src, "must_reject": null}})));
                    }
                    if !g.observed.accepted {
                        continue;
                    }
                    accepted += 1;
                    // split at the commas; the literal (and a positional callback) stay in front
                    let mut items: Vec<String> = vec![String::new()];
                    for t in seq {
                        if alpha[*t] == "," {
                            items.push(String::new());
                        } else {
                            let last = items.last_mut().unwrap();
                            if !last.is_empty() {
                                last.push(' ');
                            }
                            last.push_str(alpha[*t]);
                        }
                    }
                    if items.last().map_or(false, |x| x.is_empty()) {
                        items.pop();
                    }
                    let fixed = if name.starts_with("logos") {
                        0
                    } else {
                        // literal, then a positional callback if the second item is one
                        1 + items.get(1).map_or(0, |x| (!x.contains('=') && !x.starts_with("ignore")) as usize)
                    };
                    if items.len() < fixed + 2 || items.len() > fixed + 5 {
                        continue;
                    }
                    let free: Vec<String> = items[fixed..].to_vec();
                    for p in permutations(&free).into_iter().skip(1) {
                        let mut list: Vec<String> = items[..fixed].to_vec();
                        list.extend(p);
                        let src2 = wrap(&list.join(if glue.is_empty() { "," } else { ", " }).replace(' ', glue));
                        perms_run += 1;
                        let g2 = vdrive::generate(&src2, false);
                        let out2 = g2.tokens.as_ref().map(|t| t.to_string());
                        let same = g2.observed.accepted && out2.as_deref() == Some(out.as_str());
                        if !same && vs.len() < 4 {
                            // several skips renumber the leaves: compare the canonical graphs then
                            if g2.observed.accepted && gen_equiv(&src) == gen_equiv(&src2) {
                                continue;
                            }
                            vs.push(viol("ORDER-SENSITIVE", "c18", format!("{name} token sequence: {src} | reordered: {src2}"), format!("the written order is accepted, the reordered list is {}", if g2.observed.accepted { "accepted with a different output" } else { "rejected" }), json!({"sources": [src, src2]})));
                        }
                    }
                }
                (accepted, perms_run, vs)
            })
            .collect();
        for (acc, perms, vs) in results {
            rep.count("accepted", acc);
            rep.count("evaluations", perms);
            rep.count("distinct_nontrivial", acc);
            for v in vs {
                let wanted = match a.prop.as_str() {
                    "C18" => v.tag == "ORDER-SENSITIVE",
                    "C19" | "C13" => v.tag != "ORDER-SENSITIVE",
                    _ => true,
                };
                if wanted && rep.violations.len() < 40 {
                    rep.violations.push(v);
                }
            }
        }
        let n = all.len() as u64;
        rep.count("evaluations", n);
        rep.count("distinct_nontrivial", n);
    }
    rep.samples.push(json!({"example": "#[regex(\"a\" , priority = 3 , cb)] - a sequence of 7 tokens; accepted lists are permuted"}));
    rep
}

// ------------------------------------------------------------------------------------ replay

pub fn replay(a: &Args, rec: &serde_json::Value) -> Report {
    let mut rep = Report::new(&a.prop, "vgraph replay", &a.tier_name);
    let r = &rec["replay"];
    let tag = r["tag"].as_str().unwrap_or("");
    match r["kind"].as_str().unwrap_or("") {
        "c16" => {
            let spec: Spec = serde_json::from_value(r["spec"].clone()).unwrap_or_else(|_| Spec::new(true, vec![]));
            let sm = r["sm"].as_bool().unwrap_or(false);
            let script: Script = serde_json::from_value(r["script"].clone()).unwrap_or_default();
            let src = r["src"].as_str().map(|x| x.to_string()).unwrap_or_else(|| spec.render("T", ""));
            let src_b = src.clone();
            let base = std::thread::spawn(move || gen_with(&src_b, sm, vec![])).join().unwrap();
            let differs = if r["diagnostics"].as_bool() == Some(true) {
                // `base` was the first expansion of this process: the later ones must give the same text
                (0..3).any(|_| gen_with(&src, sm, vec![]).tokens != base.tokens) || {
                    let s2 = src.clone();
                    std::thread::spawn(move || gen_with(&s2, sm, vec![]).tokens).join().unwrap() != base.tokens
                }
            } else if r["process"].as_bool() == Some(true) {
                // long-lived side: the whole corpus first (forward), then this definition; fresh side: a child
                let mut srcs: Vec<String> = c16_corpus(Tier::Quick).iter().map(|(_, s)| s.render("T", "")).collect();
                srcs.extend(c16_raw().into_iter().map(|x| x.1));
                for s in &srcs {
                    let _ = gen_with(s, sm, vec![]);
                }
                let here = gen_with(&src, sm, vec![]).tokens;
                let exe = std::env::current_exe().expect("exe");
                fresh_process_tokens(&exe, &src, sm).map_or(false, |t| t != here)
            } else if r["history"].as_bool() == Some(true) {
                // the whole corpus in both orders on one thread each; this definition's output must not change
                let corpus = c16_corpus(Tier::Quick);
                let mut found = false;
                for rev in [false, true] {
                    let mut srcs: Vec<String> = corpus.iter().map(|(_, s)| s.render("T", "")).collect();
                    srcs.extend(c16_raw().into_iter().map(|x| x.1));
                    let target = src.clone();
                    let outs: Vec<String> = std::thread::spawn(move || {
                        let mut order: Vec<usize> = (0..srcs.len()).collect();
                        if rev {
                            order.reverse();
                        }
                        order.into_iter().filter_map(|d| { let t = gen_with(&srcs[d], sm, vec![]).tokens; if srcs[d] == target { Some(t) } else { None } }).collect()
                    })
                    .join()
                    .unwrap();
                    found |= outs.iter().any(|t| *t != base.tokens);
                }
                found
            } else if script.is_empty() {
                // nondeterminism the seams do not own: repeat in fresh threads (fresh hash seeds);
                // canonical mode unless the record came from the real-seed sample
                let canonical = !r["threads"].is_number();
                (0..24).any(|_| {
                    let s = src.clone();
                    let o = std::thread::spawn(move || gen_mode(&s, sm, vec![], canonical)).join().unwrap();
                    o.tokens != base.tokens || o.graph != base.graph
                })
            } else {
                let other = gen_with(&src, sm, script);
                base.tokens != other.tokens || base.graph != other.graph
            };
            if differs {
                rep.violations.push(viol(tag, "c16", spec.short(), "output depends on iteration order".into(), json!({})));
            }
        }
        "c10" => {
            let mut tmp = Report::new(&a.prop, "vgraph replay", &a.tier_name);
            c10_spellings(&mut tmp);
            c10_literal_forms(&mut tmp);
            rep.violations = tmp.violations.into_iter().filter(|v| v.tag == tag).take(1).collect();
        }
        "c08" => {
            let src = r["src"].as_str().unwrap_or("").to_string();
            let expect = r["expect"].as_bool().unwrap_or(false);
            let g = vdrive::generate(&src, false);
            let reported = g.observed.errors.iter().any(|e| e.contains("can match simultaneously"));
            if g.observed.panicked.is_some() || reported != expect {
                rep.violations.push(viol(tag, "c08", src, "reproduced".into(), json!({})));
            }
        }
        "c18" => {
            let s: Vec<String> = serde_json::from_value(r["sources"].clone()).expect("sources");
            let differ = if r["dup"].as_bool() == Some(true) {
                !c18_eval_accept("replay", &s).2.is_empty()
            } else if r["equiv"].as_bool() == Some(true) {
                gen_equiv(&s[0]) != gen_equiv(&s[1])
            } else {
                gen_tokens(&s[0]).0 != gen_tokens(&s[1]).0
            };
            if differ {
                rep.violations.push(viol(tag, "c18", s[1].clone(), "outputs differ between the two orders".into(), json!({})));
            }
        }
        "tokens" => {
            let spec: Spec = serde_json::from_value(r["spec"].clone()).expect("spec");
            let g = vdrive::generate(&spec.render("T", ""), true);
            let mut fns = vec![];
            let mut calls = 0;
            if let Some(t) = g.tokens {
                scan_sm(t, &mut fns, &mut calls);
            }
            if calls > 0 || fns.iter().any(|f| !["lex", "_make_error", "_get_action", "loop_test", "_logos_derive_compile_errors"].contains(&f.as_str())) {
                rep.violations.push(viol(tag, "tokens", spec.short(), "state-machine output has extra functions or calls lex(..)".into(), json!({})));
            }
        }
        "c19" => {
            let c: C19Case = serde_json::from_value(r["case"].clone()).expect("case");
            if let Some(v) = c19_eval(&c) {
                if v.tag == tag {
                    rep.violations.push(v);
                }
            }
        }
        "c13cb" => {
            let c: crate::fragments::FragCase = serde_json::from_value(r["case"].clone()).expect("case");
            if let Some(v) = crate::fragments::eval(&c) {
                if v.tag == tag {
                    rep.violations.push(v);
                }
            }
        }
        k => panic!("unknown replay kind {k}"),
    }
    rep
}


// ------------------------------------------------------------------------------------ C06 (structural)

fn scan_sm(ts: proc_macro2::TokenStream, fns: &mut Vec<String>, lex_calls: &mut usize) {
    use proc_macro2::{Delimiter, TokenTree};
    let v: Vec<TokenTree> = ts.into_iter().collect();
    for (i, t) in v.iter().enumerate() {
        match t {
            TokenTree::Ident(id) if id == "fn" => {
                if let Some(TokenTree::Ident(name)) = v.get(i + 1) {
                    fns.push(name.to_string());
                }
            }
            TokenTree::Ident(id) if id == "lex" => {
                let prev_is_fn = i > 0 && matches!(&v[i - 1], TokenTree::Ident(p) if p == "fn");
                if !prev_is_fn {
                    if let Some(TokenTree::Group(g)) = v.get(i + 1) {
                        if g.delimiter() == Delimiter::Parenthesis {
                            *lex_calls += 1;
                        }
                    }
                }
            }
            TokenTree::Group(g) => scan_sm(g.stream(), fns, lex_calls),
            _ => {}
        }
    }
}

/// In the state-machine output the only function items are `lex`, `_make_error`, `_get_action`
/// and `loop_test`, and nothing calls `lex(...)`: every transition is an assignment + `continue`.
pub fn c06struct(a: &Args) -> Report {
    let mut rep = Report::new(&a.prop, "vgraph c06struct", &a.tier_name);
    rep.bounds.insert("structural".into(), "every definition of the enumerated family + curated set: the state-machine generator's output has no per-state functions and no call of lex(..)".into());
    let mut specs = vcore::enumerate::family(a.tier);
    specs.extend(vcore::curated::curated().into_iter().map(|x| x.1));
    let outs: Vec<Option<(Vec<String>, usize)>> = specs
        .par_iter()
        .map(|s| {
            let g = vdrive::generate(&s.render("T", ""), true);
            if !g.observed.accepted {
                return None;
            }
            let mut fns = vec![];
            let mut calls = 0;
            scan_sm(g.tokens?, &mut fns, &mut calls);
            Some((fns, calls))
        })
        .collect();
    for (s, o) in specs.iter().zip(outs) {
        rep.count("evaluations", 1);
        let Some((fns, calls)) = o else { continue };
        rep.count("distinct_nontrivial", 1);
        rep.count("programs", 1);
        let extra: Vec<&String> = fns.iter().filter(|f| !["lex", "_make_error", "_get_action", "loop_test", "_logos_derive_compile_errors"].contains(&f.as_str())).collect();
        if (!extra.is_empty() || calls > 0) && rep.violations.len() < 20 {
            rep.violations.push(viol("SM-STRUCT", "tokens", s.short(), format!("state-machine output defines functions {extra:?} and contains {calls} call(s) of lex(..): stack use can depend on the input"), json!({"spec": s})));
        }
    }
    rep
}


// ------------------------------------------------------------------------------------ vprobe emit

/// Write the crates compiled by the real toolchain: `bad` = every single item and every same-key
/// pair of the attribute grammar as #[derive(Logos)] inputs (rustc must report errors, never a
/// proc-macro panic); `good` = valid definitions that must compile.
pub fn probe_emit(a: &Args) {
    use std::fmt::Write as _;
    let dir = a.out.clone();
    let all = c19_cases(a.tier);
    let keep_desc = ["token args", "regex args", "skip args", "bare attr", "attr = lit", "enum-level bare attr", "regex pattern", "regex pattern allow_greedy", "regex pattern allow_greedy = false", "skip pattern allow_greedy = false", "skip pattern", "subpattern body", "regex byte-string pattern", "skip byte-string pattern", "byte-string subpattern body", "logos item", "variant x generics", "variant x generics (regex cb)", "variant no attr", "empty enum", "no patterns", "only skip", "def args x variant", "value kind: def argument", "value kind: skip argument", "value kind: logos item", "value kind: discriminant", "value kind: attribute value"];
    let mut cases: Vec<C19Case> = all.iter().filter(|c| keep_desc.contains(&c.desc.as_str())).cloned().collect();
    // same-key pairs (the ones whose handling involves a second span: "previous definition here", Span::join)
    let key = |t: &str| t.split(|c: char| !c.is_alphanumeric() && c != '_').next().unwrap_or("").to_string();
    let lf = logos_frags();
    for x in &lf {
        for y in &lf {
            if !key(&x.text).is_empty() && key(&x.text) == key(&y.text) {
                cases.push(C19Case { desc: "same-key logos pair (one attribute)".into(), src: format!("#[logos({}, {})] enum T {{ #[token(\"z\")] Z }}", x.text, y.text), must_reject: None });
                cases.push(C19Case { desc: "same-key logos pair (two attributes)".into(), src: format!("#[logos({})] #[logos({})] enum T {{ #[token(\"z\")] Z }}", x.text, y.text), must_reject: None });
            }
        }
    }
    let named = ["priority = 3", "callback = f", "callback = |lex| 1", "ignore(case)", "allow_greedy = true", "f", "|lex| 2"];
    for x in named {
        for y in named {
            for attr in ["token", "regex"] {
                cases.push(C19Case { desc: "same-key def args pair".into(), src: format!("enum T {{ #[{attr}(\"a\", {x}, {y})] A }}"), must_reject: None });
            }
            cases.push(C19Case { desc: "same-key def args pair (skip)".into(), src: format!("#[logos(skip(\"a\", {x}, {y}))] enum T {{ #[token(\"z\")] Z }}"), must_reject: None });
            cases.push(C19Case { desc: "same-key error args pair".into(), src: format!("#[logos(error(E, {x}, {y}))] enum T {{ #[token(\"z\")] Z }}"), must_reject: None });
        }
    }
    let mut seen = BTreeSet::new();
    cases.retain(|c| seen.insert(c.src.clone()) && syn_item_enum_ok(&c.src));
    let mut lib = String::from("#![allow(warnings)]\n");
    let mut index = vec![];
    let mut line = 2usize;
    for (n, c) in cases.iter().enumerate() {
        let body = format!("mod c{n} {{\n    use logos::Logos;\n    #[derive(Logos)]\n    {}\n}}\n", c.src.replace('\n', " "));
        let nl = body.matches('\n').count();
        index.push(json!({"n": n, "line_start": line, "line_end": line + nl - 1, "src": c.src, "desc": c.desc, "must_reject": c.must_reject}));
        line += nl;
        lib.push_str(&body);
    }
    std::fs::create_dir_all(format!("{dir}/bad/src")).unwrap();
    std::fs::write(format!("{dir}/bad/src/lib.rs"), lib).unwrap();
    std::fs::write(format!("{dir}/bad/cases.json"), serde_json::to_string(&index).unwrap()).unwrap();
    // ---- good crate: curated definitions through the real derive (must compile), plus logos-cli style outputs
    let mut good = String::from("#![allow(warnings)]\n");
    let mut gindex = vec![];
    let mut dispatch = String::new();
    for (n, (name, spec, _)) in vcore::curated::curated().into_iter().enumerate() {
        let arms: Vec<String> = (0..spec.pats.len()).filter(|i| spec.pats[*i].kind != vcore::spec::Kind::Skip).map(|i| format!("T::V{i} => {i}")).collect();
        let src_expr = if spec.utf8 { "match std::str::from_utf8(input) { Ok(s) => s, Err(_) => return vec![(-2, 0, 0)] }" } else { "input" };
        let _ = writeln!(
            good,
            "pub mod g{n} {{\n    use logos::Logos;\n    {}\n    pub fn run(input: &[u8]) -> Vec<(i32, usize, usize)> {{\n        let src = {src_expr};\n        let mut lex = T::lexer(src);\n        let mut v = vec![];\n        while let Some(r) = lex.next() {{\n            let sp = lex.span();\n            v.push((match r {{ Ok(t) => (match t {{ {} }}) as i32, Err(_) => -1 }}, sp.start, sp.end));\n            if v.len() > input.len() + 2 {{ break; }}\n        }}\n        v\n    }}\n}}",
            spec.render("T", "Logos, Debug, Clone, Copy, PartialEq").replace('\n', "\n    "),
            arms.join(", ")
        );
        let _ = writeln!(dispatch, "        {n} => g{n}::run(input),");
        gindex.push(json!({"n": n, "name": name, "spec": spec}));
    }
    let _ = writeln!(good, "pub fn run(n: usize, input: &[u8]) -> Vec<(i32, usize, usize)> {{\n    match n {{\n{dispatch}        _ => vec![],\n    }}\n}}");
    // valid definitions with callbacks / extras / error types / generics
    let extras = [
        "#[derive(Logos, Debug, PartialEq)] #[logos(extras = u32, error = String)] pub enum T<'s> { #[regex(\"[a-z]+\", |lex| { lex.extras += 1; lex.slice() })] W(&'s str), #[regex(\"[0-9]+\", |lex| lex.slice().parse().map_err(|_| String::from(\"bad\")))] N(u64), #[token(\" \", logos::skip)] S }",
        "#[derive(Logos, Debug, PartialEq)] #[logos(skip \" \", utf8 = false)] pub enum T { #[token(b\"\\xff\")] F, #[regex(b\"[a-z]+\", priority = 3, ignore(case))] W }",
        "#[derive(Logos, Debug, PartialEq)] #[logos(subpattern d = \"[0-9]\", skip(\" +\", priority = 9))] pub enum T { #[regex(\"(?&d)+\", ignore(case), priority = 4)] N, #[token(\"x\", ignore(case), priority = 10)] X }",
        "#[derive(Logos, Debug, PartialEq, Clone, Default)] pub enum E { #[default] D } #[derive(Logos, Debug, PartialEq)] #[logos(error(E, callback = |lex| E::D))] pub enum T { #[token(\"a\")] A }",
        // inline callbacks whose body is a tuple, an array, or starts with a parenthesised / bracketed operand
        "#[derive(Logos, Debug, PartialEq)] pub enum T { #[regex(\"[a-z]+\", |lex| (lex.slice().len(), 1u8))] W((usize, u8)), #[regex(\"[0-9]+\", |lex| [lex.slice().len() as u8; 2])] N([u8; 2]), #[regex(\"=+\", |lex| (lex.slice().len() as u32).pow(2) + 1)] E(u32), #[regex(\"-+\", callback = |lex| [1usize, 2][0] + lex.slice().len())] M(usize), #[regex(\"_+\", |l| (l.slice().len() > 1) && true)] U }",
        "#[derive(Debug, PartialEq, Clone, Default)] pub struct E(usize, usize); #[derive(Logos, Debug, PartialEq)] #[logos(error(E, callback = |lex| (|s: core::ops::Range<usize>| E(s.start, s.end))(lex.span())))] #[logos(skip(\" +\", |lex| (lex.slice().len() > 0).then_some(()).ok_or(E(0, 0))))] pub enum T { #[token(\"a\")] A }",
        // FIELD TYPES that mention the enum's own lifetime in every position a type can hold one
        // (reference, generic argument, tuple, array, fn pointer, trait-object bound, nested): with the
        // implicit source lifetime all of them have to be renamed consistently
        "use logos::Lexer; fn fa<'a>(lex: &mut Lexer<'a, T<'a>>) -> Box<dyn Fn() -> usize + 'a> { let s: &'a str = lex.slice(); Box::new(move || s.len()) } fn fb<'a>(_lex: &mut Lexer<'a, T<'a>>) -> Box<dyn Fn() -> usize + 'static> { Box::new(|| 7) } fn fi<'a>(lex: &mut Lexer<'a, T<'a>>) -> Vec<(&'a str, Box<dyn Fn(&'a str) -> &'a str + 'a>)> { let s: &'a str = lex.slice(); vec![(s, Box::new(move |_| s))] } fn fg<'a>(_lex: &mut Lexer<'a, T<'a>>) -> fn(&'a str) -> usize { |s| s.len() } #[derive(Logos)] pub enum T<'a> { #[regex(\"a+\", fa)] A(Box<dyn Fn() -> usize + 'a>), #[regex(\"b+\", fb)] B(Box<dyn Fn() -> usize + 'static>), #[regex(\"c+\", |lex| (lex.slice(), 1usize))] C((&'a str, usize)), #[regex(\"d+\", |lex| [lex.slice()])] D([&'a str; 1]), #[regex(\"e+\", |lex| Some(lex.slice()))] E(Option<&'a str>), #[regex(\"f+\", |lex| std::borrow::Cow::Borrowed(lex.slice()))] F(std::borrow::Cow<'a, str>), #[regex(\"g+\", fg)] G(fn(&'a str) -> usize), #[regex(\"h+\", |_| std::marker::PhantomData)] H(std::marker::PhantomData<&'a ()>), #[regex(\"i+\", fi)] I(Vec<(&'a str, Box<dyn Fn(&'a str) -> &'a str + 'a>)>), #[regex(\"k+\", |lex| lex.slice().as_bytes())] K(&'a [u8]), #[regex(\"l+\", |lex| Box::new(lex.slice()) as Box<dyn std::fmt::Debug + Send + '_>)] L(Box<dyn std::fmt::Debug + Send + 'a>) }",
        "use logos::Lexer; #[derive(Logos)] #[logos(utf8 = false)] pub enum T<'x> { #[regex(b\"a+\", |lex| lex.slice())] A(&'x [u8]), #[regex(b\"b+\", |lex| Box::new(lex.slice()) as Box<dyn AsRef<[u8]> + '_>)] B(Box<dyn AsRef<[u8]> + 'x>), #[regex(b\"c+\", |lex| (lex.slice(), [lex.slice().len()]))] C((&'x [u8], [usize; 1])) }",
    ];
    for (k, e) in extras.iter().enumerate() {
        let _ = writeln!(good, "pub mod x{k} {{\n    use logos::Logos;\n    {e}\n}}");
    }
    std::fs::create_dir_all(format!("{dir}/good/src")).unwrap();
    std::fs::write(format!("{dir}/good/src/lib.rs"), good).unwrap();
    std::fs::write(format!("{dir}/good/cases.json"), serde_json::to_string(&gindex).unwrap()).unwrap();
    eprintln!("probe-emit: {} derive inputs in bad/, {} modules in good/", cases.len(), gindex.len() + extras.len());
}

fn syn_item_enum_ok(src: &str) -> bool {
    // rustc must be able to parse the item, otherwise the whole crate fails before expansion
    src.parse::<proc_macro2::TokenStream>().is_ok() && vdrive_parse_enum(src)
}

fn vdrive_parse_enum(src: &str) -> bool {
    syn::parse_str::<syn::File>(src).map_or(false, |f| f.items.iter().all(|i| matches!(i, syn::Item::Enum(_))))
}


// ------------------------------------------------------------------------------------ C19 (resource-limited children)

pub const BIG_PATTERNS: &[&str] = &["((((a{65535}){65535}){65535}){65535}){2}", "(a{4294967295}){4294967295}b", "((a{65535}b){65535}c){65535}", "a{0,4294967295}b", "(a{1000}){1000}", "a{100000}b"];

/// child: run generate() on one definition and print the outcome on one line
pub fn c19big_child(a: &Args) {
    let src = a.file.clone().expect("--file <enum source>");
    let g = vdrive::generate(&src, false);
    match g.observed.panicked {
        Some(p) => println!("OUTCOME panic {p}"),
        None => println!("OUTCOME {}", if g.observed.accepted { "accepted" } else { "rejected" }),
    }
}

/// Astronomically large counted repetitions: each definition in a child process with an address
/// space limit (4 GB) and a CPU-time limit (60 s of CPU, so that a busy machine does not turn into a verdict; 900 s wall clock as a backstop). A panic is a PANIC violation; death by memory
/// exhaustion / timeout is a RESOURCE violation keyed by the exact pattern.
pub fn c19big(a: &Args) -> Report {
    let mut rep = Report::new(&a.prop, "vgraph c19big (resource-limited children)", &a.tier_name);
    let exe = std::env::current_exe().expect("exe");
    // DEPTH: groups, optional groups, lazy groups and bracketed classes nested 200 / 300 / 3 000 /
    // 20 000 deep (regex-syntax refuses beyond its nest limit; whatever the derive does with such a
    // pattern, it must answer - a stack overflow kills the compiler)
    let mut all_patterns: Vec<String> = BIG_PATTERNS.iter().map(|p| p.to_string()).collect();
    for n in [200usize, 300, 3000, 20_000] {
        all_patterns.push(format!("{}a{}", "(".repeat(n), ")".repeat(n)));
        all_patterns.push(format!("{}a{}", "(?:".repeat(n), ")".repeat(n)));
        all_patterns.push(format!("x{}a{}", "(?:".repeat(n), ")?".repeat(n)));
        all_patterns.push(format!("{}a{}", "(b|".repeat(n), ")".repeat(n)));
        all_patterns.push(format!("{}a{}", "[b[".repeat(n / 2), "]]".repeat(n / 2)));
    }
    let results: Vec<(String, String)> = all_patterns
        .par_iter()
        .map(|p| {
            let src = format!("enum T {{ #[regex(\"{p}\")] A }}");
            let out = std::process::Command::new("bash")
                .arg("-c")
                .arg("ulimit -v 4000000; ulimit -t 60; exec timeout 900 \"$0\" c19big-child --file \"$1\"")
                .arg(&exe)
                .arg(&src)
                .output()
                .expect("spawn");
            let text = String::from_utf8_lossy(&out.stdout).to_string();
            let line = text.lines().find(|l| l.starts_with("OUTCOME")).map(|l| l.to_string()).unwrap_or_else(|| format!("DIED status {:?} {}", out.status.code(), String::from_utf8_lossy(&out.stderr).lines().next().unwrap_or("")));
            (p.to_string(), line)
        })
        .collect();
    // whole definitions whose expansion could recurse without end (a stack overflow cannot be
    // caught in-process): (source, must be rejected)
    let risky: Vec<(String, bool)> = {
        let mut v: Vec<(String, bool)> = vec![];
        for (items, generics, rej) in [
            ("type T = Vec<T>", "<T>", true),
            ("type T = T", "<T>", true),
            ("type T = Vec<U>, type U = Box<T>", "<T, U>", true),
            ("type U = Box<T>, type T = Vec<U>", "<T, U>", true),
            ("type T = (u8, [T; 2])", "<T>", true),
            ("type T = fn(T) -> T", "<T>", true),
            ("type T = &'a T, lifetime = 'a", "<'a, T>", true),
            ("type T = Vec<u8>", "<T>", false),
            ("type T = Vec<Vec<Vec<u8>>>", "<T>", false),
            ("type T = self::T", "<T>", false),
        ] {
            let second = if generics.contains('U') { ", #[token(\"b\")] B(U)" } else { "" };
            v.push((format!("#[logos({items})] enum Tok{generics} {{ #[regex(\"a\", cb)] A(T){second} }}"), rej));
            v.push((format!("#[logos({items})] enum Tok{generics} {{ #[token(\"a\")] A(T){second}, #[regex(\"c+\")] C }}"), rej));
        }
        for body in ["(?&s)", "a(?&s)", "(?&t)"] {
            v.push((format!("#[logos(subpattern s = \"{body}\")] enum T {{ #[regex(\"x(?&s)\")] A }}"), true));
        }
        v.push(("#[logos(subpattern s = \"(?&t)\", subpattern t = \"(?&s)\")] enum T { #[regex(\"x(?&s)\")] A }".into(), true));
        v
    };
    let risky_out: Vec<String> = risky
        .par_iter()
        .map(|(src, _)| {
            let out = std::process::Command::new("bash").arg("-c").arg("ulimit -v 4000000; ulimit -t 60; exec timeout 900 \"$0\" c19big-child --file \"$1\"").arg(&exe).arg(src).output().expect("spawn");
            let text = String::from_utf8_lossy(&out.stdout).to_string();
            text.lines().find(|l| l.starts_with("OUTCOME")).map(|l| l.to_string()).unwrap_or_else(|| format!("DIED status {:?} {}", out.status.code(), String::from_utf8_lossy(&out.stderr).lines().filter(|l| !l.trim().is_empty()).take(2).collect::<Vec<_>>().join(" | ")))
        })
        .collect();
    for ((src, rej), line) in risky.iter().zip(risky_out) {
        rep.count("evaluations", 1);
        rep.count("distinct_nontrivial", 1);
        if line.starts_with("OUTCOME panic") {
            rep.violations.push(viol("PANIC", "c19big", src.clone(), format!("generate() panicked: {line}"), json!({"src": src})));
        } else if line.starts_with("DIED") {
            rep.violations.push(viol("CRASH", "c19big", src.clone(), format!("the derive kills its process instead of reporting a diagnostic: {line}"), json!({"src": src})));
        } else if *rej && line.starts_with("OUTCOME accepted") {
            rep.violations.push(viol("MUSTREJECT-ACCEPTED", "c19big", src.clone(), "a definition that refers to itself is accepted".into(), json!({"src": src})));
        }
    }
    for (p, line) in results {
        rep.count("evaluations", 1);
        rep.count("distinct_nontrivial", 1);
        if line.starts_with("OUTCOME panic") {
            rep.violations.push(viol("PANIC", "c19big", format!("regex {p}"), format!("generate() panicked: {line}"), json!({"pattern": p})));
        } else if line.starts_with("DIED") && p.len() > 300 {
            let short: String = p.chars().take(24).collect();
            rep.violations.push(viol("CRASH", "c19big", format!("regex {short}... ({} characters of nested groups)", p.len()), format!("the derive kills its process instead of reporting a diagnostic: {line}"), json!({"pattern_len": p.len()})));
        } else if line.starts_with("DIED") {
            rep.violations.push(Violation {
                key: format!("RESOURCE/{p}"),
                tag: "RESOURCE".into(),
                case: format!("regex {p}"),
                detail: format!("the derive neither finishes nor reports a diagnostic within 4 GB / 60 s ({line}): there is no size limit on the automaton"),
                replay: json!({"kind": "c19big", "tag": "RESOURCE", "pattern": p}),
            });
        }
        rep.observe(&format!("big:{}", line.split_whitespace().take(2).collect::<Vec<_>>().join("_")), 1);
        let _ = &p;
    }
    rep
}
