//! Dedicated definition families: C10 (literals / ignore(case)), C11 (subpatterns), C12 (modes),
//! replay of recorded violations, and the reference self-checks.
use crate::common::{self, DefOut};
use crate::{run_specs, Args};
use rayon::prelude::*;
use serde_json::json;
use vcore::enumerate::Tier;
use vcore::report::{Report, Violation};
use vcore::spec::{Kind, Lit, Pat, Spec};

const EQUIV_TAGS: &[&str] = &["OUTCOME", "EARLY-STOP", "ERRSPAN", "OVERREAD", "PRIO-MISMATCH", "LEAF-COUNT", "LEAF-KIND", "NO-GRAPH", "PANIC", "DETERMINISM", "STEP", "EOI-STRUCT", "ROOT", "UNDEFINED-SUB-ACCEPTED", "UNPARSABLE-ACCEPTED", "NONUTF8-ACCEPTED", "CONFLICT-SPURIOUS"];

// ------------------------------------------------------------------------------------ C10

const C10_CHARS: &[char] = &[
    '\u{1c5}', '\\', '.', '+', '*', '?', '(', ')', '|', '[', ']', '{', '}', '^', '$', '#', '&', '-', '~', ' ', 'k', 'K', 's', 'S', 'é', 'É', 'ß', 'ſ', '\u{212A}', 'σ', 'ς', 'Σ', '€', '\u{130}', '\u{131}', '_', '`', '@',
    // the ends of the UTF-8 length ranges and characters outside the BMP, cased and uncased
    '\u{7ff}', '\u{800}', '\u{ffff}', '\u{10000}', '😊', '\u{10400}', '\u{10428}', '\u{1e900}', '\u{10ffff}',
];
const C10_BYTES: &[u8] = &[b'a', b'K', 0x00, 0x7f, 0x80, 0xe9, 0xff, b'.', b'\\', b'[', b'_', b'`', b'@', b'z', b'{'];

/// harness-side escaping: every non-alphanumeric ASCII character as \x{HH}
fn escape_str(w: &str) -> String {
    let mut o = String::new();
    for c in w.chars() {
        if c.is_ascii() && !c.is_ascii_alphanumeric() {
            o.push_str(&format!("\\x{{{:02x}}}", c as u32));
        } else {
            o.push(c);
        }
    }
    o
}
pub fn escape_str_pub(w: &str) -> String {
    escape_str(w)
}
fn escape_bytes(w: &[u8]) -> Vec<u8> {
    let mut o = vec![];
    for &b in w {
        if b.is_ascii_alphanumeric() {
            o.push(b);
        } else {
            o.extend(format!("\\x{b:02X}").bytes());
        }
    }
    o
}

fn words<T: Clone>(alpha: &[T], max: usize) -> Vec<Vec<T>> {
    let mut out: Vec<Vec<T>> = vec![];
    let mut cur: Vec<Vec<T>> = vec![vec![]];
    for _ in 0..max {
        let mut nxt = vec![];
        for w in &cur {
            for a in alpha {
                let mut x = w.clone();
                x.push(a.clone());
                nxt.push(x);
            }
        }
        out.extend(nxt.iter().cloned());
        cur = nxt;
    }
    out
}

pub fn c10(a: &Args) -> Report {
    let mut rep = Report::new(&a.prop, "vgraph c10", &a.tier_name);
    let maxlen = if a.tier == Tier::Thorough { 3 } else { 2 };
    rep.bounds.insert("literals".into(), format!("all strings of length 1..={maxlen} over {} characters (every regex metacharacter, cased non-ASCII) and over {} byte values; forms token / regex(escaped) / skip(escaped), with and without ignore(case)", C10_CHARS.len(), C10_BYTES.len()));
    rep.bounds.insert("inputs".into(), "all inputs (language equivalence by product exploration)".into());
    let mut specs: Vec<Spec> = vec![];
    let mut pairs: Vec<(usize, usize)> = vec![]; // (without icase, with icase) for "nothing else changes"
    let mut push_pair = |specs: &mut Vec<Spec>, plain: Spec, ic: Spec| {
        specs.push(plain);
        specs.push(ic);
        pairs.push((specs.len() - 2, specs.len() - 1));
    };
    for w in words(C10_CHARS, maxlen) {
        let w: String = w.into_iter().collect();
        let mk = |kind: Kind, lit: &str, ic: bool| {
            let mut p = Pat::new(kind, Lit::Str(lit.to_string()));
            p.icase = ic;
            let mut pats = vec![p];
            if kind == Kind::Skip {
                pats.push(Pat::token("zz"));
            }
            Spec::new(true, pats)
        };
        push_pair(&mut specs, mk(Kind::Token, &w, false), mk(Kind::Token, &w, true));
        let e = escape_str(&w);
        push_pair(&mut specs, mk(Kind::Regex, &e, false), mk(Kind::Regex, &e, true));
        push_pair(&mut specs, mk(Kind::Skip, &e, false), mk(Kind::Skip, &e, true));
    }
    for w in words(C10_BYTES, maxlen) {
        let mk = |kind: Kind, lit: &[u8], ic: bool| {
            let mut p = Pat::new(kind, Lit::Bytes(lit.to_vec()));
            p.icase = ic;
            let mut pats = vec![p];
            if kind == Kind::Skip {
                pats.push(Pat::btoken(b"zz"));
            }
            Spec::new(false, pats)
        };
        push_pair(&mut specs, mk(Kind::Token, &w, false), mk(Kind::Token, &w, true));
        let e = escape_bytes(&w);
        push_pair(&mut specs, mk(Kind::Regex, &e, false), mk(Kind::Regex, &e, true));
        push_pair(&mut specs, mk(Kind::Skip, &e, false), mk(Kind::Skip, &e, true));
        // byte-string literals holding valid UTF-8 are also legal in str mode
        if std::str::from_utf8(&w).is_ok() {
            let mut s = mk(Kind::Token, &w, false);
            s.utf8 = true;
            specs.push(s);
        }
    }
    // EVERY byte value / every ASCII character, alone and next to a letter on either side (an escape
    // that turns a character into an assertion - `\<`, `\>`, `\b` - needs a word character beside it
    // to show), as token / regex / skip, with and without ignore(case), byte-string and str literals
    for b in 0..=255u8 {
        for w in [vec![b], vec![b'e', b'n', b'd', b], vec![b, b'K'], vec![b'a', b, b'z']] {
            let mk = |kind: Kind, lit: &[u8], ic: bool| {
                let mut p = Pat::new(kind, Lit::Bytes(lit.to_vec()));
                p.icase = ic;
                let mut pats = vec![p];
                if kind == Kind::Skip {
                    pats.push(Pat::btoken(b"zz"));
                } else if lit.len() > 1 {
                    // a shorter token with the same head: what the literal's tail means decides who wins
                    pats.push(Pat::btoken(b"end").prio(1));
                }
                Spec::new(false, pats)
            };
            push_pair(&mut specs, mk(Kind::Token, &w, false), mk(Kind::Token, &w, true));
            if w.len() <= 2 {
                let e = escape_bytes(&w);
                push_pair(&mut specs, mk(Kind::Regex, &e, false), mk(Kind::Regex, &e, true));
                push_pair(&mut specs, mk(Kind::Skip, &e, false), mk(Kind::Skip, &e, true));
            }
            if b < 0x80 {
                let ws = String::from_utf8(w.clone()).unwrap();
                let mks = |kind: Kind, lit: &str, ic: bool| {
                    let mut p = Pat::new(kind, Lit::Str(lit.to_string()));
                    p.icase = ic;
                    let mut pats = vec![p];
                    if kind == Kind::Skip {
                        pats.push(Pat::token("zz"));
                    } else if lit.len() > 1 {
                        pats.push(Pat::token("end").prio(1));
                    }
                    Spec::new(true, pats)
                };
                push_pair(&mut specs, mks(Kind::Token, &ws, false), mks(Kind::Token, &ws, true));
                if w.len() <= 2 {
                    let e = escape_str(&ws);
                    push_pair(&mut specs, mks(Kind::Skip, &e, false), mks(Kind::Skip, &e, true));
                }
            }
        }
    }
    // single-character literals over the whole alphabet: EVERY character that simple case folding
    // relates to another one (about 2 800), plus a stride through all scalar values (thorough: every
    // 16th, quick: every 2048th) - as #[token], with and without ignore(case), and next to an ASCII letter
    {
        use regex_syntax::hir::{ClassUnicode, ClassUnicodeRange};
        let stride = if a.tier == Tier::Thorough { 16 } else { 2048 };
        for (n, c) in (0..=0x10ffffu32).filter_map(char::from_u32).enumerate() {
            let mut cl = ClassUnicode::new([ClassUnicodeRange::new(c, c)]);
            cl.case_fold_simple();
            let cased = cl.iter().map(|r| r.end() as u32 - r.start() as u32 + 1).sum::<u32>() > 1;
            if !cased && n % stride != 0 {
                continue;
            }
            for w in [c.to_string(), format!("a{c}"), format!("{c}Z")] {
                let mk = |ic: bool| {
                    let mut p = Pat::new(Kind::Token, Lit::Str(w.clone()));
                    p.icase = ic;
                    Spec::new(true, vec![p])
                };
                if cased || w.chars().count() == 1 {
                    push_pair(&mut specs, mk(false), mk(true));
                }
            }
        }
    }
    // ignore(case) on REGEX and SKIP patterns is the regex crate's (?i): classes whose ranges span
    // letters although their source has no cased letter, titlecase letters, negated classes ...
    let class_atoms: Vec<&str> = vec!["a", "[ab]", "[@-\\[]", "[^a]", "é", "\u{1c5}", "k", "\\x{212a}", "[0-9_-]", "[\\x{40}-\\x{5b}]", "ß", "[Ḁ-ỿ]", "\\p{Greek}", "[σς]"];
    let cterms = vcore::enumerate::terms(&class_atoms, 1, &["+", "?", "{2}"], &[]);
    for t in &cterms {
        let src = t.render();
        for utf8 in [true, false] {
            for kind in [Kind::Regex, Kind::Skip] {
                let mk = |ic: bool| {
                    let mut p = Pat::new(kind, Lit::Str(src.clone()));
                    p.icase = ic;
                    let mut pats = vec![p];
                    if kind == Kind::Skip {
                        pats.push(Pat::token("zz"));
                    }
                    Spec::new(utf8, pats)
                };
                push_pair(&mut specs, mk(false), mk(true));
            }
        }
    }
    for src in [&b"[@-\\[]"[..], b"[\\x40-\\x5b]+", b"k\\xff", b"[^a]", b"\\xc3\\xa9"] {
        for kind in [Kind::Regex, Kind::Skip] {
            let mk = |ic: bool| {
                let mut p = Pat::new(kind, Lit::Bytes(src.to_vec()));
                p.icase = ic;
                let mut pats = vec![p];
                if kind == Kind::Skip {
                    pats.push(Pat::btoken(b"zz"));
                }
                Spec::new(false, pats)
            };
            push_pair(&mut specs, mk(false), mk(true));
        }
    }
    // ignore(case) on a regex / skip that includes subpatterns: the flag reaches the included text
    specs.extend(c11_specs(a.tier).into_iter().filter(|s| !s.subpatterns.is_empty() && s.pats.iter().any(|p| p.icase)));
    run_specs(&mut rep, &a.prop, &specs, EQUIV_TAGS, true);
    // "nothing else about the definition changes"
    let obs: Vec<_> = specs.par_iter().map(|s| common::observe(s, false).1).collect();
    let mut compared = 0u64;
    for (p, i) in pairs {
        if let (Some(g0), Some(g1)) = (&obs[p].graph, &obs[i].graph) {
            compared += 1;
            let strip = |g: &vcore::graph::Graph| g.leaves.iter().map(|l| (l.priority, l.skip, l.has_callback)).collect::<Vec<_>>();
            // (acceptance may legitimately change: the larger language can tie with another pattern)
            if strip(g0) != strip(g1) {
                rep.violations.push(Violation {
                    key: format!("ICASE-CHANGES-OTHER/{}", specs[i].short()),
                    tag: "ICASE-CHANGES-OTHER".into(),
                    case: specs[i].short(),
                    detail: format!("leaves without ignore(case): {:?} accepted={} ; with: {:?} accepted={}", strip(g0), obs[p].accepted, strip(g1), obs[i].accepted),
                    replay: json!({"kind": "layer1", "spec": specs[i], "tag": "ICASE-CHANGES-OTHER", "path_hex": "", "source": specs[i].render("T", "")}),
                });
            }
        }
    }
    rep.count("icase_pairs_compared", compared);
    crate::tokenlevel::c10_spellings(&mut rep);
    crate::tokenlevel::c10_literal_forms(&mut rep);
    rep
}

// ------------------------------------------------------------------------------------ C11

pub fn c11_specs(tier: Tier) -> Vec<Spec> {
    let bodies: Vec<&str> = vec!["a", "a|b", "[ab]+", "(?i)a", "(?i:a)b", "(?s).", "a|bc", "é", "\\p{Greek}", "#a|#b", "[#@]c", "ab?", "(?-u:a)", "a|", "(?x) a b", "(?x) a # c\n b", "a\\#", "a\nb"];
    let mut bodies: Vec<&str> = if tier == Tier::Thorough { bodies } else { bodies[..11].to_vec() };
    // white space at the edges of the source is part of the subpattern
    bodies.extend([", ", " a", "a ", " ", "\ta\t", "a\n", " |b "]);
    let users = ["(?&s)", "x(?&s)", "(?&s)x", "x(?&s)y", "(?&s)+", "(?&s)|c", "(?&s)(?&s)", "(?:(?&s))?x", "(?&s){2}y", "[xy](?&s)*z", "é(?&s)+", "«(?&s)»", "(?&s)→(?&s)x", "€€(?&s)q", r"\\(?&s)", r"\((?&s)\)", r"a\\\\(?&s)|b", r#""([^"\\]|\\(?&s))*""#];
    let mut specs = vec![];
    for b in &bodies {
        for u in users {
            for utf8 in [true, false] {
                specs.push(Spec::new(utf8, vec![Pat::regex(u)]).with_sub("s", b));
                specs.push(Spec::new(utf8, vec![Pat::skip(u), Pat::token("q")]).with_sub("s", b));
                // with a competing pattern
                specs.push(Spec::new(utf8, vec![Pat::regex(u).prio(9), Pat::regex("[a-z]+").prio(1)]).with_sub("s", b));
            }
            // two levels
            for t in ["(?&s)c", "c(?&s)|d", "(?&s)(?&s)", "(?i)(?&s)"] {
                let u2 = u.replace("(?&s)", "(?&t)");
                specs.push(Spec::new(true, vec![Pat::regex(&u2)]).with_sub("s", b).with_sub("t", t));
                specs.push(Spec::new(true, vec![Pat::regex(&format!("{u2}|(?&s)w"))]).with_sub("s", b).with_sub("t", t));
            }
        }
        // undefined / forward references must be compile errors
        specs.push(Spec::new(true, vec![Pat::regex("(?&nope)x")]).with_sub("s", b));
        specs.push(Spec::new(true, vec![Pat::regex("(?&t)x")]).with_sub("t", "(?&s)c").with_sub("s", b));
        specs.push(Spec::new(true, vec![Pat::skip("(?&nope)"), Pat::token("q")]).with_sub("s", b));
    }
    // bracket structure of the source text: sources that begin with an opening construct and end
    // with a closing one without being ONE group (`(?:ab)|(?:cd)`, `(a)(b)`, `[ab]|[cd]`), sources
    // that are exactly one group of every kind, escaped parentheses at the edges. A reference has to
    // behave like a group around the WHOLE source whatever its first and last characters are.
    {
        let parts = ["(?:ab)", "(c)", "[ab]", "(?i:a)", "a", r"\(", r"\)", "(?:a|b)", "(?:)"];
        let conns = ["|", "", "*|", "|x|"];
        let mut bodies: Vec<String> = vec![];
        for (i, l) in parts.iter().enumerate() {
            for (j, r) in parts.iter().enumerate() {
                for (k, c) in conns.iter().enumerate() {
                    // quick tier: a third of the combinations, every part on both sides and every connector
                    if tier == Tier::Thorough || (i + 2 * j + k) % 3 == 0 || (i == j && k < 2) {
                        bodies.push(format!("{l}{c}{r}"));
                    }
                }
            }
        }
        for b in ["(?:a|b)", "(a|b)", "(?i:a|b)", "(?P<n>a|b)", "((a)|b)", "(?:(?:a)|b)", "(?:a)", "(?:ab)+", "(?:a|b)?c", "c(?:a|b)", "(?u:a|b)", "(?-u:a|b)", "(?s:.|b)", "(?:a|b){2}", "(?:(?:a|b))", "(?x: a | b )"] {
            bodies.push(b.to_string());
        }
        let busers = ["x(?&s)y", "(?&s)y", "x(?&s)", "(?&s)", "(?&s)+z", "(?&s)(?&s)k"];
        for b in &bodies {
            for u in busers {
                for utf8 in [true, false] {
                    specs.push(Spec::new(utf8, vec![Pat::regex(u)]).with_sub("s", b));
                }
                specs.push(Spec::new(true, vec![Pat::skip(u), Pat::token("q")]).with_sub("s", b));
                specs.push(Spec::new(true, vec![Pat::regex(&u.replace("(?&s)", "(?&t)"))]).with_sub("s", b).with_sub("t", "(?:(?&s)-)|(?:(?&s)\\+)"));
            }
            specs.push(Spec::new(false, vec![Pat::regex("x(?&s)y")]).with_bsub("s", b.as_bytes()));
        }
    }
    // sources that are only balanced once they are wrapped: not patterns by themselves, their
    // alternation / group structure would escape the scoping group - must be compile errors
    for b in ["x)|(?:y", "a)(b", "a)|(b", "x))((y", "a)+(b"] {
        for u in ["(?&s)z", "w(?&s)", "(?&s)", "(?:(?&s))+q"] {
            for utf8 in [true, false] {
                specs.push(Spec::new(utf8, vec![Pat::regex(u)]).with_sub("s", b));
                specs.push(Spec::new(utf8, vec![Pat::skip(u), Pat::token("q")]).with_sub("s", b));
            }
        }
        specs.push(Spec::new(true, vec![Pat::regex("(?&t)k")]).with_sub("s", b).with_sub("t", "(?&s)c"));
        specs.push(Spec::new(false, vec![Pat::regex("k(?&s)")]).with_bsub("s", b.as_bytes()));
    }
    // flags of the USER reach into the included text (textual inclusion): ignore(case) on the
    // definition, inline flags in front of / around the reference; bodies that are sensitive to
    // them (cased letters, `.`, their own (?-i:..) / (?-s:..) groups, Kelvin sign / long s folds)
    let fbodies = ["a", "aB|Ab", "(?-i:aB|Ab)", ".", "[a-c]x", "é|ü", "k", "s+", "(?i)a|b", "(?-s:.)b", "a b", "[^a]"];
    let fusers = ["(?&s)", "x(?&s)y", "(?&s)+z", "X(?&s)|q(?&s)"];
    for b in fbodies.iter().take(if tier == Tier::Thorough { 12 } else { 8 }) {
        for u in fusers {
            for utf8 in [true, false] {
                specs.push(Spec::new(utf8, vec![Pat::regex(u).icase()]).with_sub("s", b));
                specs.push(Spec::new(utf8, vec![Pat::skip(u).icase(), Pat::token("0")]).with_sub("s", b));
                specs.push(Spec::new(utf8, vec![Pat::regex(u).icase().prio(9), Pat::regex("[a-zA-Z]+").prio(1)]).with_sub("s", b));
            }
            for wrap in ["(?s){}", "(?i){}", "(?i:{})w", "(?s:{})w", "(?is){}", "w(?i){}", "(?x) {} w", "(?U){}", "(?m){}", "(?-u){}"] {
                let user = wrap.replace("{}", u);
                specs.push(Spec::new(true, vec![Pat::regex(&user)]).with_sub("s", b));
                specs.push(Spec::new(false, vec![Pat::regex(&user)]).with_sub("s", b));
                specs.push(Spec::new(true, vec![Pat::skip(&user), Pat::token("0")]).with_sub("s", b));
            }
            // two levels, the flag on the outermost user
            specs.push(Spec::new(true, vec![Pat::regex(&u.replace("(?&s)", "(?&t)")).icase()]).with_sub("s", b).with_sub("t", "(?&s)c|D"));
            specs.push(Spec::new(true, vec![Pat::regex(&format!("(?s){}", u.replace("(?&s)", "(?&t)")))]).with_sub("s", b).with_sub("t", "(?&s)c|D"));
        }
    }
    // Unicode mode is the SUBPATTERN's own: str bodies whose meaning depends on it, referenced from
    // byte-string patterns / from inside (?-u:...), and byte-string bodies referenced from str patterns
    for body in [".", "[^a]", "\\w", "(?i)k", "é", "\\s", "[a-zé]"] {
        for user in ["x(?&s)y", "(?&s)+z", "(?&s)"] {
            specs.push(Spec::new(false, vec![Pat::bregex(user.as_bytes())]).with_sub("s", body));
            specs.push(Spec::new(false, vec![Pat::bregex(user.as_bytes()), Pat::bregex(b"[\x80-\xff]").prio(1)]).with_sub("s", body));
            specs.push(Spec::new(false, vec![Pat::regex(&format!("(?-u:{user})"))]).with_sub("s", body));
            specs.push(Spec::new(true, vec![Pat::regex(&format!("(?-u:{user})"))]).with_sub("s", body));
            // nested through a byte-string subpattern
            specs.push(Spec::new(false, vec![Pat::regex("q(?&t)")]).with_sub("s", body).with_bsub("t", user.as_bytes()));
        }
    }
    for body in [&b"."[..], b"[^a]", b"\\w", b"(?i)k", b"\\s"] {
        for user in ["x(?&s)y", "(?&s)+z", "(?&s)"] {
            specs.push(Spec::new(false, vec![Pat::regex(user)]).with_bsub("s", body));
            specs.push(Spec::new(true, vec![Pat::regex(user)]).with_bsub("s", body));
            specs.push(Spec::new(false, vec![Pat::regex(user), Pat::regex("é+").prio(1)]).with_bsub("s", body));
        }
    }
    // str-literal subpatterns that switch Unicode off by hand: fine in a byte lexer, to be rejected
    // in a str lexer when they can match invalid UTF-8
    for body in ["(?-u:[\\x80-\\xff])", "(?-u:\\xff)", "a(?-u:.)", "(?-u:[^a])", "(?-u:\\xc3\\xa9)"] {
        for user in ["x(?&s)", "(?&s)+z", "(?&s)"] {
            for utf8 in [false, true] {
                specs.push(Spec::new(utf8, vec![Pat::regex(user)]).with_sub("s", body));
                specs.push(Spec::new(utf8, vec![Pat::skip(user), Pat::token("q")]).with_sub("s", body));
            }
        }
    }
    // subpatterns that can match invalid UTF-8 although the DEFINITION's patterns cannot: never
    // referenced, or completed by the user into a valid sequence (only the subpattern-level check can
    // reject these in a str lexer; a byte lexer accepts them)
    for (body, is_b) in [("(?-u:\\xC3)", false), ("(?-u:[\\x80-\\xbf])", false), ("(?-u:[^\"])*", false), ("a|(?-u:\\xff)", false), ("\\xC3", true), ("[\\x80-\\xbf]", true), ("\\xe2\\x82", true)] {
        for user in ["k", "(?&s)(?-u:\\xA9)", "(?-u:\\xC3)(?&s)", "(?-u:\\xe2)(?&s)(?-u:\\xac)|z", "(?&s)(?-u:\\xac)"] {
            for utf8 in [true, false] {
                let sp = Spec::new(utf8, vec![Pat::regex(user), Pat::token("q")]);
                specs.push(if is_b { sp.with_bsub("s", body.as_bytes()) } else { sp.with_sub("s", body) });
                let sp = Spec::new(utf8, vec![Pat::skip(user), Pat::token("q")]);
                specs.push(if is_b { sp.with_bsub("s", body.as_bytes()) } else { sp.with_sub("s", body) });
            }
        }
        // through a second subpattern that is valid UTF-8 as a whole
        let sp = Spec::new(true, vec![Pat::regex("x(?&t)")]);
        let sp = if is_b { sp.with_bsub("s", body.as_bytes()) } else { sp.with_sub("s", body) };
        specs.push(sp.with_sub("t", "(?&s)(?-u:\\xA9)|y"));
    }
    // flags written inside an INTERMEDIATE subpattern, in front of or around its reference to another
    // subpattern: the referenced text keeps its own Unicode mode (and sees the case / dot flags of the
    // place it is included in); chains of two and three levels, str and byte-string links in every mix
    {
        let bodies = [".", "[^a]", "\\w", "(?i)k", "é", "\\s", "[a-zé]", "\\d", "k"];
        let mids = ["(?-u)x(?&s)", "(?-u:x(?&s))", "(?-u:(?&s))y", "(?-u)[a-z](?&s)", "(?&s)(?-u:-(?&s))", "(?i)(?&s)", "(?s)(?&s)", "(?s-u)(?&s)", "(?x) (?&s) y", "(?U)(?&s)+", "(?-u:(?u:(?&s)))", "(?u)(?&s)", "(?i-u:k(?&s))", "(?-u)(?&s)|(?u)(?&s)x"];
        let users = ["(?&t)", "<(?&t)>", "(?&t)+z"];
        for (bi, b) in bodies.iter().enumerate() {
            for (mi, m) in mids.iter().enumerate() {
                for (ui, u) in users.iter().enumerate() {
                    if tier != Tier::Thorough && (bi + mi + ui) % 2 == 1 && ui != 1 {
                        continue;
                    }
                    for utf8 in [true, false] {
                        specs.push(Spec::new(utf8, vec![Pat::regex(u)]).with_sub("s", b).with_sub("t", m));
                    }
                    // byte-string links: the middle one, the inner one, both
                    specs.push(Spec::new(false, vec![Pat::regex(u)]).with_sub("s", b).with_bsub("t", m.as_bytes()));
                    if b.is_ascii() {
                        specs.push(Spec::new(false, vec![Pat::regex(u)]).with_bsub("s", b.as_bytes()).with_sub("t", m));
                        specs.push(Spec::new(false, vec![Pat::bregex(u.as_bytes())]).with_bsub("s", b.as_bytes()).with_bsub("t", m.as_bytes()));
                    }
                }
                // three levels: the flag sits in the middle of the chain
                if tier == Tier::Thorough || (bi + mi) % 3 == 0 {
                    specs.push(Spec::new(true, vec![Pat::regex("(?&w)")]).with_sub("s", b).with_sub("t", m).with_sub("w", "(?&t)=(?&t)"));
                    specs.push(Spec::new(false, vec![Pat::regex("(?&w)")]).with_sub("s", b).with_sub("t", m).with_sub("w", "(?&t)=(?&t)"));
                    specs.push(Spec::new(true, vec![Pat::skip("(?&w)+"), Pat::token("0")]).with_sub("s", b).with_sub("t", m).with_sub("w", "(?-u:,)(?&t)"));
                }
            }
        }
    }
    // NAMES: one name a prefix of the other (both declaration orders), digits and underscores, names
    // that differ only in case, names that are flag letters or keywords of the attribute syntax, long
    // names - a reference is resolved by its whole name, nothing else
    {
        let pairs = [("hex_digit", "hex"), ("hex", "hex_digit"), ("a", "ab"), ("ab", "a"), ("d", "d1"), ("d1", "d"), ("x_", "x"), ("x", "x_"), ("A", "a"), ("a", "A"), ("i", "u"), ("s", "ss"), ("u", "i"),
            ("subpattern", "skip"), ("n0", "n00"), ("n00", "n0"), ("_", "__"), ("__", "_"), ("r#x", "r"), ("a1b2", "a1b"), ("é", "ée"), ("long_name_of_a_subpattern_0123456789_abcdefghijklmnopqrstuvwxyz", "long_name_of_a_subpattern_0123456789")];
        for (n1, n2) in pairs {
            // the second one refers to the first; users refer to either or both
            let b2 = format!("0x(?&{n1})+");
            for user in [format!("(?&{n2})"), format!("(?&{n1})(?&{n2})"), format!("(?&{n2})|(?&{n1})z"), format!("<(?&{n1})>")] {
                for utf8 in [true, false] {
                    specs.push(Spec::new(utf8, vec![Pat::regex(&user)]).with_sub(n1, "[0-9a-f]").with_sub(n2, &b2));
                }
                specs.push(Spec::new(true, vec![Pat::skip(&user), Pat::token("q")]).with_sub(n1, "[0-9a-f]").with_sub(n2, &b2));
            }
            // independent bodies, both declaration orders, each name used alone and together
            for user in [format!("(?&{n1})-(?&{n2})"), format!("(?&{n2})-(?&{n1})"), format!("k(?&{n1})"), format!("k(?&{n2})")] {
                specs.push(Spec::new(true, vec![Pat::regex(&user)]).with_sub(n1, "a|b").with_sub(n2, "[0-9]"));
                specs.push(Spec::new(true, vec![Pat::regex(&user)]).with_sub(n2, "[0-9]").with_sub(n1, "a|b"));
            }
        }
    }
    // byte-string subpatterns
    for (body, user) in [(&b"\xff"[..], "a(?&s)"), (b"[\x80-\xbf]", "(?&s)+"), (b"a|\xfe", "x(?&s)y"), (b".", "(?&s)z")] {
        specs.push(Spec::new(false, vec![Pat::regex(user)]).with_bsub("s", body));
        specs.push(Spec::new(false, vec![Pat::bregex(user.as_bytes())]).with_bsub("s", body));
        // and in str mode they must be rejected when they can match invalid UTF-8
        specs.push(Spec::new(true, vec![Pat::regex(user)]).with_bsub("s", body));
    }
    specs
}

pub fn c11(a: &Args) -> Report {
    let mut rep = Report::new(&a.prop, "vgraph c11", &a.tier_name);
    let specs = c11_specs(a.tier);
    rep.bounds.insert("family".into(), "subpattern bodies (alternations, inline flags, classes, byte strings) x reference positions (start, middle, end, under repetition, twice) x one and two levels of nesting x {regex, skip} users x {str, bytes}; undefined and forward references".into());
    rep.bounds.insert("inputs".into(), "all inputs (language equivalence by product exploration against the harness's own inlining)".into());
    run_specs(&mut rep, &a.prop, &specs, EQUIV_TAGS, true);
    rep
}

// ------------------------------------------------------------------------------------ C12

pub fn c12(a: &Args) -> Report {
    let mut rep = Report::new(&a.prop, "vgraph c12", &a.tier_name);
    rep.bounds.insert("family".into(), "every str-mode definition of the enumerated family + curated set, explored in str mode and in utf8=false mode over all valid UTF-8 inputs; byte-only patterns must be rejected in str mode and accepted in byte mode".into());
    rep.bounds.insert("inputs".into(), "all valid UTF-8 inputs of every length".into());
    let mut base: Vec<Spec> = vcore::enumerate::family(a.tier).into_iter().filter(|s| s.utf8).collect();
    for (_, s, heavy) in vcore::curated::curated() {
        if s.utf8 && (!heavy || a.tier == Tier::Thorough) {
            base.push(s);
        }
    }
    // subpattern definitions that are acceptable in str mode (cross-mode references included)
    base.extend(c11_specs(a.tier).into_iter().filter(|s| s.utf8));
    if a.tier == Tier::Quick {
        // keep the quick tier quick: every third definition of the enumerated part
        let keep = (a.seed % 3) as usize;
        base = base.into_iter().enumerate().filter(|(i, _)| i % 3 == keep).map(|(_, s)| s).collect();
    }
    let outs: Vec<(DefOut, DefOut, bool)> = base
        .par_iter()
        .map(|s| {
            let (_, o1) = common::observe(s, false);
            let sb = s.clone().bytes_mode();
            let (_, o2) = common::observe(&sb, false);
            let same_graph = match (&o1.graph, &o2.graph) {
                (Some(g1), Some(g2)) => g1.states == g2.states && g1.root == g2.root,
                _ => false,
            };
            // byte mode explored over valid UTF-8 paths only
            (common::process_observed(s, &o1), common::process_observed_opt(&sb, &o2, true), same_graph)
        })
        .collect();
    let mut same = 0u64;
    for (s, (o1, o2, sg)) in base.iter().zip(outs.iter()) {
        let sb = s.clone().bytes_mode();
        common::fold(&mut rep, &a.prop, s, o1, EQUIV_TAGS);
        let n0 = rep.violations.len();
        common::fold(&mut rep, &a.prop, &sb, o2, EQUIV_TAGS);
        for v in rep.violations.iter_mut().skip(n0) {
            v.replay["utf8_paths_only"] = json!(true);
        }
        if *sg {
            same += 1;
        }
        // the byte-mode twin is accepted iff the str definition is, or is rejected ONLY because it
        // can match invalid UTF-8
        let only_utf8_reason = o1.reject_reason.as_deref().map_or(false, |r| r.split('+').all(|x| x.starts_with("non-utf8")));
        let want_bytes_accepted = o1.accepted || (only_utf8_reason && o1.unexpected_reject.is_none());
        if o1.accepted != o2.accepted || o2.accepted != want_bytes_accepted {
            if !(only_utf8_reason && o2.accepted) {
                rep.violations.push(Violation {
                    key: format!("MODE-ACCEPTANCE/{}", s.short()),
                    tag: "MODE-ACCEPTANCE".into(),
                    case: s.short(),
                    detail: format!("accepted in str mode: {}, in byte mode: {} (reference reject reason: {:?})", o1.accepted, o2.accepted, o1.reject_reason),
                    replay: json!({"kind": "layer1", "spec": s, "tag": "MODE-ACCEPTANCE", "path_hex": "", "source": s.render("T", "")}),
                });
            }
        }
    }
    rep.observe("identical_graphs_in_both_modes", same);
    // byte-only patterns: rejected in str mode, accepted with utf8 = false
    let mut bspecs = vec![];
    for p in vcore::enumerate::byte_patterns() {
        bspecs.push(Spec::new(true, vec![p.clone()]));
        bspecs.push(Spec::new(false, vec![p.clone()]));
        bspecs.push(Spec::new(false, vec![p.clone(), Pat::regex("\\p{Greek}+"), Pat::regex(".").prio(1)]));
    }
    run_specs(&mut rep, &a.prop, &bspecs, EQUIV_TAGS, true);
    rep
}

// ------------------------------------------------------------------------------------ replay

pub fn replay(a: &Args) -> Report {
    let mut rep = Report::new(&a.prop, "vgraph replay", &a.tier_name);
    let text = std::fs::read_to_string(a.file.as_ref().expect("--file")).expect("replay file");
    let rec: serde_json::Value = serde_json::from_str(&text).expect("json");
    let r = &rec["replay"];
    let tag = r["tag"].as_str().unwrap_or("").to_string();
    match r["kind"].as_str().unwrap_or("") {
        "layer1" => {
            let spec: Spec = serde_json::from_value(r["spec"].clone()).expect("spec");
            let specs = vec![spec.clone()];
            let mut tmp = Report::new(&a.prop, "vgraph replay", &a.tier_name);
            if r["utf8_paths_only"].as_bool() == Some(true) {
                let (_, o) = common::observe(&spec, false);
                let out = common::process_observed_opt(&spec, &o, true);
                common::fold(&mut tmp, &a.prop, &spec, &out, EQUIV_TAGS);
            } else {
                run_specs(&mut tmp, &a.prop, &specs, EQUIV_TAGS, true);
            }
            if tag == "ICASE-CHANGES-OTHER" || tag == "MODE-ACCEPTANCE" {
                // pairwise comparisons: re-run the owning family restricted to this definition
                let sub = if tag == "MODE-ACCEPTANCE" { c12_single(a, &spec) } else { c10_single(a, &spec) };
                tmp.violations.extend(sub);
            }
            rep.violations = tmp.violations.into_iter().filter(|v| v.tag == tag).collect();
            rep.counts = tmp.counts;
        }
        "c16" | "c18" | "c19" | "tokens" | "c13cb" => return crate::tokenlevel::replay(a, &rec),
        "c17" => return crate::cli::replay(a, &rec),
        "code" => {
            let spec: Spec = serde_json::from_value(r["spec"].clone()).expect("spec");
            rep.violations = crate::codecheck::replay_one(&spec, &tag);
        }
        k => panic!("unknown replay kind {k}"),
    }
    rep
}

fn c10_single(_a: &Args, spec: &Spec) -> Vec<Violation> {
    let mut plain = spec.clone();
    for p in plain.pats.iter_mut() {
        p.icase = false;
    }
    let o0 = common::observe(&plain, false).1;
    let o1 = common::observe(spec, false).1;
    let strip = |g: &vcore::graph::Graph| g.leaves.iter().map(|l| (l.priority, l.skip, l.has_callback)).collect::<Vec<_>>();
    match (&o0.graph, &o1.graph) {
        (Some(g0), Some(g1)) if strip(g0) != strip(g1) => vec![Violation {
            key: format!("ICASE-CHANGES-OTHER/{}", spec.short()),
            tag: "ICASE-CHANGES-OTHER".into(),
            case: spec.short(),
            detail: format!("leaves without ignore(case): {:?} accepted={} ; with: {:?} accepted={}", strip(g0), o0.accepted, strip(g1), o1.accepted),
            replay: json!(null),
        }],
        _ => vec![],
    }
}

fn c12_single(_a: &Args, s: &Spec) -> Vec<Violation> {
    let o1 = common::process(s);
    let sb = s.clone().bytes_mode();
    let (_, ob) = common::observe(&sb, false);
    let o2 = common::process_observed_opt(&sb, &ob, true);
    if o1.accepted != o2.accepted {
        let only_utf8_reason = o1.reject_reason.as_deref().map_or(false, |r| r.contains("non-utf8"));
        if !(only_utf8_reason && o2.accepted) {
            return vec![Violation {
                key: format!("MODE-ACCEPTANCE/{}", s.short()),
                tag: "MODE-ACCEPTANCE".into(),
                case: s.short(),
                detail: format!("accepted in str mode: {}, in byte mode: {} (reference reject reason: {:?})", o1.accepted, o2.accepted, o1.reject_reason),
                replay: json!(null),
            }];
        }
    }
    vec![]
}

// ------------------------------------------------------------------------------------ dump / selfcheck

pub fn dump(a: &Args) {
    // print the generated graph of a definition given as JSON spec file or as enum source on stdin
    use std::io::Read;
    let mut src = String::new();
    if let Some(f) = &a.file {
        src = std::fs::read_to_string(f).unwrap();
    } else {
        std::io::stdin().read_to_string(&mut src).unwrap();
    }
    let g = vdrive::generate(&src, false);
    println!("accepted={} errors={:?} panicked={:?}", g.observed.accepted, g.observed.errors, g.observed.panicked);
    if let Some(gr) = g.observed.graph {
        println!("root={} leaves={:?}", gr.root, gr.leaves);
        for (i, s) in gr.states.iter().enumerate() {
            println!("  state {i}: accept={:?} early={:?} eoi={:?} edges={:?}", s.accept, s.early, s.eoi, s.normal);
        }
    }
}

pub fn selfcheck(a: &Args) -> Report {
    crate::selfcheck::run(a)
}

pub fn curated_status(_a: &Args) {
    for (name, s, _) in vcore::curated::curated() {
        let (_, o) = common::observe(&s, false);
        if !o.accepted {
            println!("{name}: REJECTED {:?}", o.errors.iter().map(|e| e.lines().next().unwrap_or("").to_string()).collect::<Vec<_>>());
        }
    }
}


pub fn timing(a: &Args) {
    let specs = vcore::enumerate::family(a.tier);
    let mut t: Vec<(u128, String)> = specs
        .par_iter()
        .map(|s| {
            let t0 = std::time::Instant::now();
            let _ = common::observe(s, false);
            (t0.elapsed().as_micros(), s.short())
        })
        .collect();
    let total: u128 = t.iter().map(|x| x.0).sum();
    t.sort();
    t.reverse();
    println!("total {} ms over {} defs", total / 1000, t.len());
    for (us, s) in t.iter().take(12) {
        println!("{us:>8} us  {s}");
    }
    for key in ["[^b]", "[^a]", ".", "\\p{Greek}", "é", "€", "(?i"] {
        let (n, sum) = t.iter().filter(|x| x.1.contains(key)).fold((0u64, 0u128), |a, x| (a.0 + 1, a.1 + x.0));
        println!("contains {key:<12} n={n:<6} total={} ms avg={} us", sum / 1000, if n > 0 { sum / n as u128 } else { 0 });
    }
}
