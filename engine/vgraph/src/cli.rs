//! C17: the real logos-cli binary on an enumerated grammar of enum sources (oracle: the harness's
//! own syn-based stripping + generate()), and all short histories of write / --check invocations.
use crate::Args;
use quote::ToTokens;
use rayon::prelude::*;
use serde_json::json;
use std::collections::{HashSet, VecDeque};
use std::path::{Path, PathBuf};
use std::process::Command;
use syn::punctuated::Punctuated;
use vcore::report::{Report, Violation};

fn is_logos_attr(a: &syn::Attribute) -> bool {
    a.path().is_ident("logos") || a.path().is_ident("token") || a.path().is_ident("regex")
}

/// The specification of the stripped enum, written independently of logos_codegen::strip_attributes.
pub fn expected_strip(src: &str) -> Option<proc_macro2::TokenStream> {
    let mut item: syn::ItemEnum = syn::parse_str(src).ok()?;
    item.attrs.retain(|a| !is_logos_attr(a));
    for a in item.attrs.iter_mut() {
        if a.path().is_ident("derive") {
            if let syn::Meta::List(l) = &mut a.meta {
                let paths = l.parse_args_with(Punctuated::<syn::Path, syn::Token![,]>::parse_terminated).ok()?;
                let kept: Vec<syn::Path> = paths.into_iter().filter(|p| p.segments.last().map_or(true, |s| s.ident != "Logos")).collect();
                l.tokens = quote::quote!(#(#kept),*);
            }
        }
    }
    for v in item.variants.iter_mut() {
        v.attrs.retain(|a| !is_logos_attr(a));
        for f in v.fields.iter_mut() {
            f.attrs.retain(|a| !is_logos_attr(a));
        }
    }
    Some(item.to_token_stream())
}

/// normal form for comparison: token string without empty `#[derive()]` attributes
fn norm(ts: &proc_macro2::TokenStream) -> String {
    ts.to_string().replace("# [derive ()]", "").split_whitespace().collect::<Vec<_>>().join(" ")
}

pub fn sources() -> Vec<String> {
    let derive_lists: Vec<&str> = vec![
        "Logos", "Logos, Debug", "Debug, Logos", "Debug, Logos, Clone", "Debug, Clone, Logos", "logos::Logos", "::logos::Logos, Debug", "Debug, logos::Logos, Clone",
        "Debug, serde::Serialize, Logos", "Logos, std::hash::Hash, Eq", "Debug, logos::Logos, serde::Serialize, Clone", "Logos,", "Debug, Logos,",
        // no Logos derive in the list at all (the derive may sit behind a cfg_attr, or the file is fed to the tool as it is)
        "Debug", "Debug, Clone",
    ];
    let extra_derive: Vec<&str> = vec!["", "#[derive(PartialEq)]", "#[derive(std::fmt::Debug)]"];
    let enum_attrs: Vec<&str> = vec!["", "#[repr(u8)]", "#[cfg_attr(feature = \"x\", derive(Hash))]", "/// a doc comment", "#[allow(dead_code)]", "#[logos(skip \" \")] #[repr(u8)]", "#[logos(extras = u8)]"];
    let variants: Vec<&str> = vec![
        "#[token(\"a\")] A",
        "#[regex(\"[0-9]+\")] #[doc = \"number\"] Num",
        "#[cfg(all())] #[token(\"b\")] B",
        "#[token(\"c\")] C(#[allow(unused)] &'static str)",
        "/// doc\n #[regex(\"d+\", |lex| lex.slice().len())] D(usize)",
        "#[token(\"e\")] #[token(\"f\")] E",
        "Plain",
        "#[regex(\"g\")] G(#[logos(x)] u8)",
    ];
    let generics: Vec<&str> = vec!["", "<'a>"];
    let mut v = vec![];
    for d in &derive_lists {
        for x in &extra_derive {
            for ea in &enum_attrs {
                for g in &generics {
                    // two variants per enum, rotating through the variant shapes
                    for k in 0..variants.len() {
                        let v1 = variants[k];
                        let v2 = variants[(k + 3) % variants.len()];
                        v.push(format!("{ea}\n#[derive({d})]\n{x}\nenum T{g} {{\n    {v1},\n    {v2},\n}}\n"));
                        if !x.is_empty() {
                            // the Logos derive in the SECOND (or third) derive attribute
                            v.push(format!("{x}\n{ea}\n#[derive({d})]\nenum T{g} {{\n    {v1},\n    {v2},\n}}\n"));
                            v.push(format!("{x}\n#[derive(Clone)]\n{ea}\n#[derive({d})]\n#[derive(Copy)]\nenum T{g} {{\n    {v1},\n    {v2},\n}}\n"));
                        }
                    }
                }
            }
        }
    }
    // item shapes beyond attributes: visibility, where clauses, bounds and defaults on parameters,
    // explicit discriminants - everything around the variants must come out unchanged
    let shapes = [
        "pub enum T { #[token(\"a\")] A }",
        "pub(crate) enum T { #[token(\"a\")] A, #[regex(\"b+\")] B }",
        "#[logos(type X = &str)] enum T<X> where X: Clone + core::fmt::Debug { #[regex(\"a+\")] A(X), #[token(\"b\")] B }",
        "#[logos(type X = &str)] pub enum T<X> where X: core::ops::Deref, <X as core::ops::Deref>::Target: core::fmt::Debug, { #[regex(\"a+\")] A(X) }",
        "enum T<'a> where 'a: 'static { #[regex(\"a+\")] A(&'a str) }",
        "#[repr(u8)] enum T { #[token(\"a\")] A = 1, #[token(\"b\")] B = 7 }",
        "#[logos(type X = u8)] pub enum T<X: Copy = u8> { #[regex(\"a+\", |_| 1)] A(X) }",
        "enum T<'a, 'b: 'a> { #[regex(\"a+\")] A(&'a &'b str), #[token(\"b\")] B }",
        "pub(in crate) enum r#T { #[token(\"a\")] r#A, #[token(\"b\")] B }",
    ];
    // foreign attributes whose names coincide with logos' other helper attributes (`error`, `extras`,
    // `end` are registered by the derive but are NOT logos / token / regex) or merely resemble them:
    // all of them belong to somebody else (thiserror's #[error("..")], ...) and must be kept
    let lookalikes = ["error(\"bad token\")", "error", "extras(u8)", "end", "tokens(\"x\")", "regexp = \"x\"", "logos_extra(skip)", "skip(\" \")", "callback(f)", "Logos", "thiserror::error(\"x\")", "r#token(\"x\")"];
    for la in lookalikes {
        for d in ["Logos, Debug", "Debug, thiserror::Error, Logos"] {
            v.push(format!("#[derive({d})]\n#[{la}]\nenum T {{\n    #[token(\"a\")] A,\n    #[regex(\"b+\")] B,\n}}\n"));
            v.push(format!("#[{la}]\n#[derive({d})]\n#[logos(skip \" \")]\nenum T {{\n    #[{la}] #[token(\"a\")] A,\n    #[regex(\"b+\")] #[{la}] B(#[{la}] u8),\n}}\n"));
        }
    }
    // no derive attribute anywhere / the Logos derive only inside a cfg_attr
    for body in ["enum T {\n    #[token(\"a\")] A,\n    #[regex(\"b+\")] B,\n}\n", "#[logos(skip \" \")]\nenum T<'a> {\n    #[regex(\"a+\")] A(&'a str),\n    #[token(\"b\")] #[doc = \"x\"] B,\n}\n"] {
        v.push(body.to_string());
        v.push(format!("#[cfg_attr(feature = \"lexer\", derive(logos::Logos))]\n#[derive(Debug, PartialEq)]\n{body}"));
        v.push(format!("#[derive(Debug)]\n#[cfg_attr(all(), derive(Logos))]\n{body}"));
        v.push(format!("#[repr(u8)]\n{body}"));
    }
    // FOREIGN attributes of unusual token shapes, at enum, variant and field level: every one of them
    // belongs to somebody else and must come out token for token (raw-string values, nested cfg_attr,
    // paths that merely END in logos / token / regex, groups holding the words token / regex / logos,
    // empty and repeated derive lists)
    let foreign = [
        "doc = r#\"raw \"doc\" with # and \\ \"#", "doc = \"two\\nlines\"", "cfg_attr(all(), cfg_attr(all(), allow(dead_code)))", "cfg_attr(any(), logos(skip \" \"))", "serde(rename = \"x\", alias = \"token\")",
        "foo::bar(baz(qux = \"(\"), [1, 2], {3})", "deprecated(since = \"1.0\", note = \"regex\")", "must_use = \"token\"", "foo(token(\"a\"), regex(\"b\"), logos(skip))", "foo::logos(skip \" \")", "foo::token(\"a\")", "x::regex(\"a\")",
        "derive()", "rustfmt::skip", "cfg(any(feature = \"logos\", not(feature = \"token\")))", "doc(alias = \"#[token(\\\"a\\\")]\")", "foo = 1.5e3", "foo = b'\\''", "foo(r#type = 1, r#fn)",
    ];
    for fa in foreign {
        v.push(format!("#[{fa}]\n#[derive(Logos, Debug)]\n#[{fa}]\n#[logos(skip \" \")]\n#[{fa}]\nenum T {{\n    #[{fa}] #[token(\"a\")] #[{fa}] A,\n    #[regex(\"b+\")] B(#[{fa}] u8),\n    #[{fa}] C,\n}}\n"));
        v.push(format!("#[derive(Debug)]\n#[{fa}]\n#[derive(Clone, logos::Logos)]\nenum T<'a> {{\n    #[token(\"a\")] #[{fa}] A(#[{fa}] #[logos(x)] &'a str),\n}}\n"));
    }
    for sh in [
        "enum T<const N: usize> { #[token(\"a\")] A, #[regex(\"b+\", |_| [0u8; N])] B([u8; N]) }",
        "#[logos(type X = u8)] enum T<'a, X: 'a + Copy = u8, const N: usize = 3> where [X; N]: Sized { #[regex(\"a+\", cb)] A(&'a [X; N]), #[token(\"b\")] B }",
        "enum T { #[token(\"a\")] A(::std::string::String), #[token(\"b\")] B(Vec<Option<(u8, [u16; 2])>>), #[token(\"c\")] C(fn(u8) -> u8), #[token(\"d\")] D(Box<dyn Fn(&str) -> usize + Send + 'static>) }",
        "#[derive(Logos)] #[derive(Logos)] enum T { #[token(\"a\")] A }",
        "pub(super) enum T { #[token(\"a\")] A = 1 << 2, #[token(\"b\")] B = { 7 }, C = -1 }",
    ] {
        v.push(format!("#[derive(Logos)]\n{sh}\n"));
        v.push(format!("#[derive(Debug, Logos, Clone)]\n#[allow(dead_code)]\n{sh}\n"));
    }
    for sh in shapes {
        for d in ["Logos", "Debug, Logos, Clone", "Debug, logos::Logos"] {
            v.push(format!("#[derive({d})]\n{sh}\n"));
            v.push(format!("/// doc\n#[derive({d})]\n#[allow(dead_code)]\n{sh}\n"));
        }
    }
    v.sort();
    v.dedup();
    v
}

fn run_cli(cli: &Path, args: &[&str]) -> (i32, String, String) {
    let o = Command::new(cli).args(args).output().expect("run logos-cli");
    (o.status.code().unwrap_or(-1), String::from_utf8_lossy(&o.stdout).to_string(), String::from_utf8_lossy(&o.stderr).to_string())
}

pub fn c17(a: &Args) -> Report {
    let mut rep = Report::new(&a.prop, "vgraph c17 (real logos-cli binary)", &a.tier_name);
    let cli = PathBuf::from(a.file.clone().expect("--file <path to logos-cli>"));
    let work = std::env::temp_dir().join(format!("vcli-{}", std::process::id()));
    let _ = std::fs::remove_dir_all(&work);
    std::fs::create_dir_all(&work).unwrap();
    let srcs = sources();
    rep.bounds.insert("rule".into(), "enum sources: 13 derive-list shapes (Logos first / middle / last, path-qualified Logos, path-qualified neighbours, trailing comma) x second derive attribute x 7 enum-level attribute sets x 8 variant/field shapes x generics; each run through the real logos-cli binary; oracle: own syn-based stripping + generate(); plus all histories of {write, --check, make stale, CRLF, delete} up to depth 4. Non-trivial = the derive list has a path-qualified member or Logos is not alone.".into());
    // ---- outputs
    let results: Vec<Option<Violation>> = srcs
        .par_iter()
        .enumerate()
        .map(|(i, src)| {
            let inp = work.join(format!("in{i}.rs"));
            std::fs::write(&inp, src).unwrap();
            let (code, out, err) = run_cli(&cli, &[inp.to_str().unwrap()]);
            let fail = |tag: &str, detail: String| {
                Some(Violation { key: format!("{tag}/{}", src.replace('\n', " ")), tag: tag.into(), case: src.replace('\n', " "), detail, replay: json!({"kind": "c17", "tag": tag, "source": src}) })
            };
            if code != 0 {
                return fail("CLI-FAILED", format!("exit {code}: {}", err.chars().take(300).collect::<String>()));
            }
            let Ok(got) = out.parse::<proc_macro2::TokenStream>() else { return fail("CLI-OUTPUT-NOT-RUST", "the output does not lex as Rust".into()) };
            if syn::parse_file(&out).is_err() {
                return fail("CLI-OUTPUT-NOT-RUST", format!("the output does not parse as a Rust file: {}", out.chars().take(200).collect::<String>()));
            }
            let Some(strip) = expected_strip(src) else { return None };
            let g = vdrive::generate(src, false);
            let Some(imp) = g.tokens else { return fail("CLI-FAILED", "generate() panicked".into()) };
            let mut want = strip.clone();
            want.extend(imp);
            if norm(&got) != norm(&want) {
                let gs = norm(&got);
                let ws = norm(&want);
                let common = gs.bytes().zip(ws.bytes()).take_while(|(a, b)| a == b).count();
                return fail("CLI-OUTPUT", format!("differs from stripped-enum + derive output at byte {common}: got ...{} | want ...{}", &gs[common.saturating_sub(30)..(common + 60).min(gs.len())], &ws[common.saturating_sub(30)..(common + 60).min(ws.len())]));
            }
            None
        })
        .collect();
    for (src, r) in srcs.iter().zip(results) {
        rep.count("evaluations", 1);
        rep.count("programs", 1);
        if src.contains("::") || src.contains(", ") {
            rep.count("distinct_nontrivial", 1);
        }
        if let Some(v) = r {
            if rep.violations.len() < 40 {
                rep.violations.push(v);
            }
            rep.count("violating_sources", 1);
        }
    }
    rep.samples.push(json!({"source": srcs[srcs.len() / 2], "checked": "logos-cli stdout == own strip + generate() as token streams; output parses with syn::parse_file"}));
    // ---- histories of invocations against the model file in {absent, fresh, fresh-CRLF, stale}
    histories(&cli, &work, &mut rep, a.tier == vcore::enumerate::Tier::Thorough);
    histories_format(&cli, &work, &mut rep);
    path_shapes(&cli, &work, &mut rep);
    let _ = std::fs::remove_dir_all(&work);
    rep
}

/// How the two paths are WRITTEN must not matter: every spelling of the input path x every spelling
/// of the output path (absolute, bare file name, `./name`, inside a sub-directory, through `..`,
/// a name with a space, a name without extension) x {plain, --format} x the working directory the
/// CLI is started in, each with all histories of length <= 3 over {write, --check}. The expectation
/// is the output obtained through absolute paths (which the other explorations bind to the oracle).
fn path_shapes(cli: &Path, work: &Path, rep: &mut Report) {
    let have_rustfmt = std::process::Command::new("rustfmt").arg("--version").output().map(|o| o.status.success()).unwrap_or(false);
    let root = work.join("ps");
    let src = "#[derive(Logos, Debug)]\n#[doc = \"first line\nsecond line\"]\n#[logos(skip \" \")]\nenum T {\n    #[token(\"a\")]\n    A,\n    #[regex(\"[0-9]+\")]\n    N,\n}\n";
    for d in ["", "sub", "sub/deep", "in dir"] {
        std::fs::create_dir_all(root.join(d)).unwrap();
    }
    for f in ["in.rs", "sub/in.rs", "in dir/in put.rs", "noext"] {
        std::fs::write(root.join(f), src).unwrap();
    }
    let abs_in = root.join("in.rs");
    let plain = run_cli(cli, &[abs_in.to_str().unwrap()]).1;
    let plain_file = {
        let p = root.join("probe_plain.rs");
        run_cli(cli, &[abs_in.to_str().unwrap(), "--output", p.to_str().unwrap()]);
        std::fs::read_to_string(&p).unwrap_or_default()
    };
    let formatted_file = if have_rustfmt {
        let p = root.join("probe_fmt.rs");
        run_cli(cli, &[abs_in.to_str().unwrap(), "--output", p.to_str().unwrap(), "--format"]);
        std::fs::read_to_string(&p).unwrap_or_default()
    } else {
        String::new()
    };
    if plain_file.is_empty() || plain_file.trim_end() != plain.trim_end() || (have_rustfmt && (formatted_file.is_empty() || formatted_file == plain_file)) {
        rep.violations.push(Violation { key: "CLI-PATHS/probe".into(), tag: "CLI-CHECK".into(), case: "path shapes: probe".into(), detail: "writing through absolute paths gives no usable expectation".into(), replay: json!({"kind": "c17", "tag": "CLI-CHECK"}) });
        return;
    }
    // (cwd relative to root, spelling of the input, spelling of the output, file the output spelling denotes relative to root)
    let abs_in_s = abs_in.to_str().unwrap().to_string();
    let mut cases: Vec<(String, String, String, String)> = vec![];
    let inputs_at_root: Vec<String> = vec![abs_in_s.clone(), "in.rs".into(), "./in.rs".into(), "sub/in.rs".into(), "sub/../in.rs".into(), "in dir/in put.rs".into(), "noext".into()];
    let outputs_at_root: Vec<(String, String)> = vec![
        (root.join("o_abs.rs").to_str().unwrap().to_string(), "o_abs.rs".into()),
        ("o.rs".into(), "o.rs".into()),
        ("./o.rs".into(), "o.rs".into()),
        ("sub/o.rs".into(), "sub/o.rs".into()),
        ("sub/deep/o.rs".into(), "sub/deep/o.rs".into()),
        ("sub/../o.rs".into(), "o.rs".into()),
        ("in dir/o ut.rs".into(), "in dir/o ut.rs".into()),
        ("o_noext".into(), "o_noext".into()),
        ("sub/.hidden".into(), "sub/.hidden".into()),
    ];
    for i in &inputs_at_root {
        for (o, f) in &outputs_at_root {
            cases.push(("".into(), i.clone(), o.clone(), f.clone()));
        }
    }
    // started inside a sub-directory: everything one level up
    for i in [abs_in_s.as_str(), "in.rs", "../in.rs", "deep/../in.rs"] {
        for (o, f) in [("o.rs", "sub/o.rs"), ("../o.rs", "o.rs"), ("./deep/o.rs", "sub/deep/o.rs"), ("deep/../../o.rs", "o.rs")] {
            cases.push(("sub".into(), i.into(), o.into(), f.into()));
        }
    }
    let hists: Vec<Vec<&str>> = {
        let mut all = vec![];
        let mut q: VecDeque<Vec<&str>> = VecDeque::new();
        q.push_back(vec![]);
        while let Some(h) = q.pop_front() {
            if h.len() == 3 {
                continue;
            }
            for op in ["write", "check"] {
                let mut h2 = h.clone();
                h2.push(op);
                all.push(h2.clone());
                q.push_back(h2);
            }
        }
        all
    };
    let modes: Vec<bool> = if have_rustfmt { vec![false, true] } else { vec![false] };
    let mut jobs = vec![];
    for (ci, c) in cases.iter().enumerate() {
        for &fmt in &modes {
            for (hi, h) in hists.iter().enumerate() {
                jobs.push((ci, c.clone(), fmt, hi, h.clone()));
            }
        }
    }
    let results: Vec<(String, Option<String>, u64)> = jobs
        .par_iter()
        .map(|(ci, (cwd, inp, outp, file), fmt, hi, h)| {
            // every job works in its own copy of the directory tree, so that jobs do not see each other's files
            let base = work.join(format!("psj_{ci}_{}_{hi}", *fmt as u8));
            for d in ["", "sub", "sub/deep", "in dir"] {
                std::fs::create_dir_all(base.join(d)).unwrap();
            }
            for f in ["in.rs", "sub/in.rs", "in dir/in put.rs", "noext"] {
                std::fs::write(base.join(f), src).unwrap();
            }
            let root_s = root.to_str().unwrap();
            let base_s = base.to_str().unwrap();
            let inp = inp.replace(root_s, base_s);
            let outp = outp.replace(root_s, base_s);
            let target = base.join(file);
            let want = if *fmt { &formatted_file } else { &plain_file };
            let label = format!("cwd=<dir>/{cwd} input={} --output {}{} history {h:?}", inp.replace(base_s, "<dir>"), outp.replace(base_s, "<dir>"), if *fmt { " --format" } else { "" });
            let mut bad = None;
            let mut calls = 0u64;
            for (k, step) in h.iter().enumerate() {
                let before = std::fs::read(&target).ok();
                let up_to_date = before.as_ref().map_or(false, |b| String::from_utf8_lossy(b).lines().eq(want.lines()));
                let mut args: Vec<&str> = vec![&inp, "--output", &outp];
                if *fmt {
                    args.push("--format");
                }
                if *step == "check" {
                    args.push("--check");
                }
                let o = Command::new(cli).args(&args).current_dir(base.join(cwd)).output().expect("run logos-cli");
                calls += 1;
                let code = o.status.code().unwrap_or(-1);
                let after = std::fs::read(&target).ok();
                if *step == "write" {
                    let holds = after.as_ref().map_or(false, |b| String::from_utf8_lossy(b).lines().eq(want.lines()));
                    if code != 0 || !holds {
                        bad = Some(format!("step {k} write: exit {code} {}; afterwards the file {}", String::from_utf8_lossy(&o.stderr).chars().take(160).collect::<String>(), if after.is_none() { "does not exist" } else { "does not hold the output" }));
                        break;
                    }
                    if up_to_date && after != before {
                        bad = Some(format!("step {k} write: the file was up to date but was rewritten"));
                        break;
                    }
                } else {
                    if (code == 0) != up_to_date {
                        bad = Some(format!("step {k} --check: exit {code} although the file {} the output", if up_to_date { "holds" } else { "does not hold" }));
                        break;
                    }
                    if after != before {
                        bad = Some(format!("step {k} --check modified the file"));
                        break;
                    }
                }
            }
            let _ = std::fs::remove_dir_all(&base);
            (label, bad, calls)
        })
        .collect();
    let mut n = 0u64;
    for (label, bad, calls) in results {
        n += 1;
        rep.count("transitions", calls);
        if let Some(m) = bad {
            if rep.violations.iter().filter(|v| v.key.starts_with("CLI-PATHS/")).count() < 20 {
                rep.violations.push(Violation { key: format!("CLI-PATHS/{label}"), tag: "CLI-CHECK".into(), case: label, detail: m, replay: json!({"kind": "c17", "tag": "CLI-CHECK"}) });
            }
        }
    }
    rep.count("path_shape_histories", n);
    rep.count("histories", n);
    rep.count("evaluations", n);
    rep.count("distinct_nontrivial", n);
    rep.count("traces_validated_against_impl", n);
    rep.bounds.insert("path shapes".into(), format!("{} (working directory, input spelling, output spelling) combinations x {} modes x all {} histories of length <= 3 over {{write, --check}}", cases.len(), modes.len(), hists.len()));
}

#[derive(Clone, Copy, PartialEq, Eq, Hash, Debug)]
enum FileState {
    Absent,
    Fresh,
    FreshCrlf,
    Stale,
}

fn histories(cli: &Path, work: &Path, rep: &mut Report, thorough: bool) {
    // (the doc string spans two lines, so the generated text has an inner line ending even without rustfmt)
    let src = "#[derive(Logos, Debug)]\n#[doc = \"first line\nsecond line\"]\n#[logos(skip \" \")]\nenum T {\n    #[token(\"a\")]\n    A,\n    #[regex(\"[0-9]+\")]\n    N,\n}\n";
    let inp = work.join("hist_in.rs");
    std::fs::write(&inp, src).unwrap();
    // a second, OLDER input that shares the output path (the file then holds the output of the
    // other input: stale for this one, whatever the modification times say)
    let inp_b = work.join("hist_in_b.rs");
    std::fs::write(&inp_b, src.replace("[0-9]+", "[0-7]+")).unwrap();
    let _ = std::process::Command::new("touch").args(["-d", "2001-01-01 00:00:00", inp_b.to_str().unwrap()]).status();
    let ops = ["write", "check", "stale", "crlf", "addnl", "delete", "writeB", "checkB", "garbage", "addbin", "trunc"];
    // all op sequences of length 1..=4 (breadth-first order); each is replayed from scratch. Quick
    // tier: length 4 only over the first six operations, the three further ones up to length 3
    let mut all: Vec<Vec<&str>> = vec![];
    let mut q: VecDeque<Vec<&str>> = VecDeque::new();
    q.push_back(vec![]);
    while let Some(h) = q.pop_front() {
        if h.len() == 4 {
            continue;
        }
        for op in ops {
            let mut h2 = h.clone();
            h2.push(op);
            if !thorough && h2.len() == 4 && h2.iter().any(|o| !ops[..6].contains(o)) {
                continue;
            }
            all.push(h2.clone());
            q.push_back(h2);
        }
    }
    rep.bounds.insert("histories".into(), format!("all sequences over {ops:?} of length <= {}", if thorough { "4" } else { "3, and of length 4 over the first six operations" }));
    let mut probe_out = |input: &Path, name: &str| -> String {
        // the text a write produces (stdout carries one more line ending from println!)
        let probe = work.join(name);
        let _ = std::fs::remove_file(&probe);
        run_cli(cli, &[input.to_str().unwrap(), "--output", probe.to_str().unwrap()]);
        let t = std::fs::read_to_string(&probe).unwrap_or_default();
        let stdout = run_cli(cli, &[input.to_str().unwrap()]).1;
        if t.is_empty() || t.trim_end() != stdout.trim_end() || t.lines().count() < 2 {
            rep.violations.push(Violation { key: "CLI-CHECK/probe".into(), tag: "CLI-CHECK".into(), case: "first write".into(), detail: format!("a write into a fresh file gives {} bytes / {} lines, stdout {} bytes", t.len(), t.lines().count(), stdout.len()), replay: json!({"kind": "c17", "tag": "CLI-CHECK"}) });
        }
        t
    };
    let expected_a = probe_out(&inp, "hist_probe.rs");
    let expected_b = probe_out(&inp_b, "hist_probe_b.rs");
    if expected_a == expected_b {
        rep.violations.push(Violation { key: "CLI-CHECK/probe2".into(), tag: "CLI-CHECK".into(), case: "two inputs".into(), detail: "two different inputs give the same output".into(), replay: json!({"kind": "c17", "tag": "CLI-CHECK"}) });
    }
    // the model is the file content: up to date <=> equal to the generated text line by line
    let classify = |c: &Option<Vec<u8>>, expected_out: &str| -> FileState {
        match c {
            None => FileState::Absent,
            Some(b) => {
                let t = String::from_utf8_lossy(b);
                if b.as_slice() == expected_out.as_bytes() {
                    FileState::Fresh
                } else if t.lines().eq(expected_out.lines()) {
                    FileState::FreshCrlf
                } else {
                    FileState::Stale
                }
            }
        }
    };
    let results: Vec<(Option<String>, Vec<(FileState, usize)>)> = all
        .par_iter()
        .enumerate()
        .map(|(n_hist, h2)| {
            let out = work.join(format!("hist_out_{n_hist}.rs"));
            let _ = std::fs::remove_file(&out);
            let mut bad: Option<String> = None;
            let mut states = vec![];
            for (k, step) in h2.iter().enumerate() {
                let before = std::fs::read(&out).ok();
                let (input, expected_out) = if step.ends_with('B') { (&inp_b, &expected_b) } else { (&inp, &expected_a) };
                let model = classify(&before, expected_out);
                let up_to_date = matches!(model, FileState::Fresh | FileState::FreshCrlf);
                let not_text = before.as_ref().map_or(false, |b| std::str::from_utf8(b).is_err());
                match *step {
                    "write" | "writeB" => {
                        let (code, _, err) = run_cli(cli, &[input.to_str().unwrap(), "--output", out.to_str().unwrap()]);
                        let after = std::fs::read(&out).ok();
                        if code != 0 && not_text && after == before {
                            // refusing to replace a file that is not text is not something the property speaks about
                        } else if code != 0 {
                            bad = Some(format!("step {k} {step}: exit {code} {err}"));
                        } else if up_to_date {
                            if after != before {
                                bad = Some(format!("step {k}: write over an up-to-date file (modulo line endings, {model:?}) modified it"));
                            }
                        } else if after.as_deref() != Some(expected_out.as_bytes()) {
                            bad = Some(format!("step {k}: after a write over a {model:?} file the file does not hold the generated output"));
                        }
                    }
                    "check" | "checkB" => {
                        let (code, _, _) = run_cli(cli, &[input.to_str().unwrap(), "--output", out.to_str().unwrap(), "--check"]);
                        if (code == 0) != up_to_date {
                            bad = Some(format!("step {k}: --check exit {code} on a {model:?} file"));
                        }
                        if std::fs::read(&out).ok() != before {
                            bad = Some(format!("step {k}: --check modified the file ({model:?})"));
                        }
                    }
                    "stale" => {
                        if let Some(c) = &before {
                            let mut c = c.clone();
                            c.extend_from_slice(b"\n// edited\n");
                            std::fs::write(&out, c).unwrap();
                        }
                    }
                    "crlf" => {
                        if let Some(c) = &before {
                            let s = String::from_utf8_lossy(c).replace("\r\n", "\n").replace('\n', "\r\n");
                            std::fs::write(&out, s).unwrap();
                        }
                    }
                    "addnl" => {
                        if let Some(c) = &before {
                            let mut c = c.clone();
                            c.push(b'\n');
                            std::fs::write(&out, c).unwrap();
                        }
                    }
                    "addbin" => {
                        // a further line that is not text, after whatever the file holds
                        if let Some(c) = &before {
                            let mut c = c.clone();
                            if !c.ends_with(b"\n") {
                                c.push(b'\n');
                            }
                            c.extend_from_slice(b"\xff\xfe junk\n");
                            std::fs::write(&out, c).unwrap();
                        }
                    }
                    "trunc" => {
                        // the last line is cut off (the file is a proper prefix of what it held)
                        if let Some(c) = &before {
                            let body = if c.ends_with(b"\n") { &c[..c.len() - 1] } else { &c[..] };
                            let cut = body.iter().rposition(|x| *x == b'\n').map_or(0, |i| i + 1);
                            std::fs::write(&out, &c[..cut]).unwrap();
                        }
                    }
                    "garbage" => {
                        // bytes that are not text at all (and newer than both inputs)
                        std::fs::write(&out, b"\xff\xfe\x00garbage\n").unwrap();
                    }
                    _ => {
                        let _ = std::fs::remove_file(&out);
                    }
                }
                states.push((classify(&std::fs::read(&out).ok(), &expected_a), k));
            }
            let _ = std::fs::remove_file(&out);
            (bad, states)
        })
        .collect();
    let mut seen_states: HashSet<(FileState, usize)> = HashSet::new();
    for (h2, (bad, states)) in all.iter().zip(results) {
        rep.count("transitions", states.len() as u64);
        seen_states.extend(states);
        if let Some(m) = bad {
            if rep.violations.len() < 50 {
                rep.violations.push(Violation { key: format!("CLI-CHECK/{h2:?}"), tag: "CLI-CHECK".into(), case: format!("history {h2:?}"), detail: m, replay: json!({"kind": "c17", "tag": "CLI-CHECK", "history": h2}) });
            }
        }
    }
    let n_hist = all.len() as u64;
    rep.count("states", seen_states.len() as u64);
    rep.count("histories", n_hist);
    rep.count("evaluations", n_hist);
    rep.count("distinct_nontrivial", n_hist);
    rep.count("traces_validated_against_impl", n_hist);
}

/// the same invocation histories with `--format` as a further choice at every write / check: the
/// model is the file content itself (check succeeds iff the content equals, line by line, the
/// output of the same invocation mode)
fn histories_format(cli: &Path, work: &Path, rep: &mut Report) {
    let have_rustfmt = std::process::Command::new("rustfmt").arg("--version").output().map(|o| o.status.success()).unwrap_or(false);
    if !have_rustfmt {
        rep.notes.push("rustfmt is not on PATH: the --format histories were not explored".into());
        return;
    }
    let src = "#[derive(Logos, Debug)]\n#[logos(skip \" \")]\nenum T {\n    #[token(\"a\")]\n    A,\n    #[regex(\"[0-9]+\")]\n    N,\n}\n";
    let inp = work.join("histf_in.rs");
    std::fs::write(&inp, src).unwrap();
    let plain = run_cli(cli, &[inp.to_str().unwrap()]).1;
    let (fcode, formatted, ferr) = run_cli(cli, &[inp.to_str().unwrap(), "--format"]);
    // independent expectation for --format: rustfmt applied to the plain output by the harness itself
    let own = {
        use std::io::Write;
        let mut ch = std::process::Command::new("rustfmt").stdin(std::process::Stdio::piped()).stdout(std::process::Stdio::piped()).stderr(std::process::Stdio::null()).spawn().expect("rustfmt");
        ch.stdin.take().unwrap().write_all(plain.as_bytes()).unwrap();
        String::from_utf8_lossy(&ch.wait_with_output().unwrap().stdout).to_string()
    };
    rep.count("evaluations", 1);
    // (stdout carries one more newline from println!; files hold rustfmt's output as it is)
    if fcode != 0 || formatted.trim_end() != own.trim_end() || own.trim().is_empty() || syn::parse_file(&formatted).is_err() {
        rep.violations.push(Violation { key: "CLI-FORMAT".into(), tag: "CLI-OUTPUT".into(), case: "--format on stdout".into(), detail: format!("exit {fcode} {ferr}; the --format output is not rustfmt(plain output) or does not parse"), replay: json!({"kind": "c17", "tag": "CLI-OUTPUT"}) });
        return;
    }
    let formatted = own;
    // ENVIRONMENT: `--format` started where no `rustfmt` can be found, or where `rustfmt` fails. The
    // invocation may fail - but it must never SUCCEED with anything but the formatted output, and a
    // failing invocation leaves the file as it was
    let no_fmt_dir = work.join("path_without_rustfmt");
    let bad_fmt_dir = work.join("path_with_failing_rustfmt");
    std::fs::create_dir_all(&no_fmt_dir).unwrap();
    std::fs::create_dir_all(&bad_fmt_dir).unwrap();
    {
        use std::os::unix::fs::PermissionsExt;
        let f = bad_fmt_dir.join("rustfmt");
        std::fs::write(&f, "#!/bin/sh\ncat > /dev/null\nexit 1\n").unwrap();
        std::fs::set_permissions(&f, std::fs::Permissions::from_mode(0o755)).unwrap();
    }
    let ops = ["write", "writef", "check", "checkf", "delete", "crlf", "addnl", "writef-no-rustfmt", "checkf-no-rustfmt", "writef-failing-rustfmt", "checkf-failing-rustfmt"];
    let mut all: Vec<Vec<&str>> = vec![];
    let mut q: VecDeque<Vec<&str>> = VecDeque::new();
    q.push_back(vec![]);
    while let Some(h) = q.pop_front() {
        if h.len() == 3 {
            continue;
        }
        for op in ops {
            let mut h2 = h.clone();
            h2.push(op);
            all.push(h2.clone());
            q.push_back(h2);
        }
    }
    let results: Vec<Option<String>> = all
        .par_iter()
        .enumerate()
        .map(|(n, h)| {
            let out = work.join(format!("histf_out_{n}.rs"));
            let _ = std::fs::remove_file(&out);
            let mut bad = None;
            for (k, step) in h.iter().enumerate() {
                let before = std::fs::read(&out).ok();
                let before_text = before.as_ref().map(|b| String::from_utf8_lossy(b).to_string());
                let mut env_path: Option<&Path> = None;
                let (is_write, fmt) = match *step {
                    "write" => (true, false),
                    "writef" => (true, true),
                    "check" => (false, false),
                    "checkf" => (false, true),
                    "writef-no-rustfmt" | "checkf-no-rustfmt" | "writef-failing-rustfmt" | "checkf-failing-rustfmt" => {
                        env_path = Some(if step.ends_with("no-rustfmt") { &no_fmt_dir } else { &bad_fmt_dir });
                        (step.starts_with("write"), true)
                    }
                    "crlf" => {
                        if let Some(t) = &before_text {
                            std::fs::write(&out, t.replace("\r\n", "\n").replace('\n', "\r\n")).unwrap();
                        }
                        continue;
                    }
                    "addnl" => {
                        if let Some(t) = &before_text {
                            std::fs::write(&out, format!("{t}\n")).unwrap();
                        }
                        continue;
                    }
                    _ => {
                        let _ = std::fs::remove_file(&out);
                        continue;
                    }
                };
                let want = if fmt { &formatted } else { &plain };
                let mut args = vec![inp.to_str().unwrap(), "--output", out.to_str().unwrap()];
                if fmt {
                    args.push("--format");
                }
                if !is_write {
                    args.push("--check");
                }
                let (code, _, err) = match env_path {
                    None => run_cli(cli, &args),
                    Some(dir) => {
                        let o = Command::new(cli).args(&args).env("PATH", dir).output().expect("run logos-cli");
                        (o.status.code().unwrap_or(-1), String::new(), String::from_utf8_lossy(&o.stderr).to_string())
                    }
                };
                let after = std::fs::read(&out).ok();
                let up_to_date = before_text.as_ref().map_or(false, |t| t.lines().eq(want.lines()));
                if env_path.is_some() && code != 0 {
                    // the formatter is not available: failing is fine, touching the file is not
                    if after != before {
                        bad = Some(format!("step {k} {step}: the invocation failed (exit {code}) but changed the file"));
                    }
                    continue;
                }
                if is_write {
                    let text = String::from_utf8_lossy(after.as_deref().unwrap_or(b"")).to_string();
                    if code != 0 || !text.lines().eq(want.lines()) {
                        bad = Some(format!("step {k} {step}: exit {code} {err}; afterwards the file does not hold the {} output", if fmt { "formatted" } else { "plain" }));
                    } else if up_to_date && after != before {
                        bad = Some(format!("step {k} {step}: the file was up to date but was rewritten"));
                    }
                } else {
                    if (code == 0) != up_to_date {
                        bad = Some(format!("step {k} {step}: --check exit {code}, but the file {} the {} output", if up_to_date { "holds" } else { "does not hold" }, if fmt { "formatted" } else { "plain" }));
                    }
                    if after != before {
                        bad = Some(format!("step {k} {step}: --check modified the file"));
                    }
                }
            }
            let _ = std::fs::remove_file(&out);
            bad
        })
        .collect();
    for (h, bad) in all.iter().zip(results) {
        rep.count("transitions", h.len() as u64);
        if let Some(m) = bad {
            if rep.violations.len() < 50 {
                rep.violations.push(Violation { key: format!("CLI-CHECK/format/{h:?}"), tag: "CLI-CHECK".into(), case: format!("history (with --format) {h:?}"), detail: m, replay: json!({"kind": "c17", "tag": "CLI-CHECK", "history": h}) });
            }
        }
    }
    let n = all.len() as u64;
    rep.count("histories", n);
    rep.count("format_histories", n);
    rep.count("evaluations", n);
    rep.count("distinct_nontrivial", n);
    rep.count("traces_validated_against_impl", n);
}

pub fn replay(a: &Args, rec: &serde_json::Value) -> Report {
    // re-run the whole (cheap) check and keep violations of the same tag and case
    let mut rep = c17(a);
    let tag = rec["replay"]["tag"].as_str().unwrap_or("").to_string();
    let key = rec["key"].as_str().unwrap_or("").to_string();
    rep.violations.retain(|v| v.tag == tag && v.key == key);
    rep
}


/// C16 supplement: the real CLI in separate PROCESSES (fresh hash seeds each) must print identical
/// bytes for the same input. A sample of seeds, labelled as such.
pub fn c16cli(a: &Args) -> Report {
    let mut rep = Report::new(&a.prop, "vgraph c16cli (real logos-cli, separate processes)", &a.tier_name);
    let cli = PathBuf::from(a.file.clone().expect("--file <path to logos-cli>"));
    let work = std::env::temp_dir().join(format!("vcli16-{}", std::process::id()));
    let _ = std::fs::remove_dir_all(&work);
    std::fs::create_dir_all(&work).unwrap();
    let runs = if a.tier == vcore::enumerate::Tier::Thorough { 16 } else { 6 };
    let mut defs: Vec<(String, vcore::spec::Spec)> = vcore::curated::curated().into_iter().filter(|(_, _, h)| !h).map(|(n, s, _)| (n.to_string(), s)).collect();
    // pairs that share a pattern source but differ elsewhere (ignore(case), subpattern bodies)
    defs.push(("kw_plain".into(), vcore::spec::Spec::new(true, vec![vcore::spec::Pat::regex("select|from|where"), vcore::spec::Pat::regex("[a-z]+").prio(1)])));
    defs.push(("kw_icase".into(), vcore::spec::Spec::new(true, vec![vcore::spec::Pat::regex("select|from|where").icase(), vcore::spec::Pat::regex("[a-z]+").prio(1)])));
    defs.push(("kw_sub1".into(), vcore::spec::Spec::new(true, vec![vcore::spec::Pat::regex("(?&d)+x")]).with_sub("d", "[0-9]")));
    defs.push(("kw_sub2".into(), vcore::spec::Spec::new(true, vec![vcore::spec::Pat::regex("(?&d)+x")]).with_sub("d", "[0-7]")));
    // in-process outputs, produced one after the other by THIS process (which therefore has a
    // history), to be compared with the fresh-process outputs of the CLI
    let in_process: Vec<Option<String>> = defs
        .iter()
        .map(|(_, spec)| {
            let src = spec.render("T", "Logos, Debug");
            let strip = expected_strip(&src)?;
            let imp = vdrive::generate(&src, false).tokens?;
            let mut want = strip;
            want.extend(imp);
            Some(norm(&want))
        })
        .collect();
    let results: Vec<Option<Violation>> = defs
        .par_iter()
        .enumerate()
        .map(|(i, (name, spec))| {
            let inp = work.join(format!("d{i}.rs"));
            std::fs::write(&inp, spec.render("T", "Logos, Debug")).unwrap();
            let first = run_cli(&cli, &[inp.to_str().unwrap()]);
            if let (Some(want), Ok(got)) = (&in_process[i], first.1.parse::<proc_macro2::TokenStream>()) {
                if norm(&got) != *want {
                    return Some(Violation { key: format!("HISTORY-DEPENDENT/{name}"), tag: "HISTORY-DEPENDENT".into(), case: format!("{name} {}", spec.short()), detail: "a fresh logos-cli process and a long-lived process that expanded other definitions before produce different output for the same definition (state leaking between generate() calls)".into(), replay: json!({"kind": "c16cli", "tag": "HISTORY-DEPENDENT", "name": name}) });
                }
            }
            for _ in 1..runs {
                let o = run_cli(&cli, &[inp.to_str().unwrap()]);
                if o.1 != first.1 || o.0 != first.0 {
                    return Some(Violation { key: format!("PROCESS-DEPENDENT/{name}"), tag: "PROCESS-DEPENDENT".into(), case: format!("{name} {}", spec.short()), detail: "two runs of logos-cli on the same input print different output".into(), replay: json!({"kind": "c16cli", "tag": "PROCESS-DEPENDENT", "name": name}) });
                }
            }
            None
        })
        .collect();
    // ENVIRONMENTS: the same input and flags under every single deviation from the default environment
    // (working directory, file name, HOME / TMPDIR / LANG / TZ / RUST_LOG / RUST_BACKTRACE / SOURCE_DATE_EPOCH /
    // CARGO_MANIFEST_DIR, an emptied environment, the file's modification time, PATH without / with a
    // failing rustfmt): whenever the invocation SUCCEEDS its output is byte-identical to the baseline.
    // (--format may fail where the formatter is missing; it must not succeed with something else.)
    {
        let have_rustfmt = std::process::Command::new("rustfmt").arg("--version").output().map(|o| o.status.success()).unwrap_or(false);
        let envdir = work.join("env");
        let other = envdir.join("other cwd");
        let nofmt = envdir.join("no_rustfmt");
        let badfmt = envdir.join("bad_rustfmt");
        for d in [&other, &nofmt, &badfmt] {
            std::fs::create_dir_all(d).unwrap();
        }
        {
            use std::os::unix::fs::PermissionsExt;
            let f = badfmt.join("rustfmt");
            std::fs::write(&f, "#!/bin/sh\ncat > /dev/null\nexit 1\n").unwrap();
            std::fs::set_permissions(&f, std::fs::Permissions::from_mode(0o755)).unwrap();
        }
        let path_var = std::env::var("PATH").unwrap_or_default();
        let mut n_env = 0u64;
        for (i, (name, spec)) in defs.iter().enumerate().filter(|(i, _)| i % 9 == 0).take(12) {
            let src = spec.render("T", "Logos, Debug");
            let inp = envdir.join(format!("e{i}.rs"));
            std::fs::write(&inp, &src).unwrap();
            for fmt in [false, true] {
                if fmt && !have_rustfmt {
                    continue;
                }
                let base_args: Vec<String> = if fmt { vec![inp.to_str().unwrap().into(), "--format".into()] } else { vec![inp.to_str().unwrap().into()] };
                let base = Command::new(&cli).args(&base_args).output().expect("run logos-cli");
                if !base.status.success() {
                    continue;
                }
                // (label, input path, cwd, env additions, clear env first)
                let copy = other.join("a name with spaces.rs");
                std::fs::write(&copy, &src).unwrap();
                let _ = Command::new("touch").args(["-d", "1999-12-31 23:59:59", copy.to_str().unwrap()]).status();
                let devs: Vec<(&str, PathBuf, PathBuf, Vec<(&str, String)>, bool)> = vec![
                    ("another working directory", inp.clone(), other.clone(), vec![], false),
                    ("a copy of the input under another name, in another directory, with an old modification time", copy.clone(), envdir.clone(), vec![], false),
                    ("HOME and TMPDIR elsewhere", inp.clone(), envdir.clone(), vec![("HOME", other.to_str().unwrap().into()), ("TMPDIR", other.to_str().unwrap().into())], false),
                    ("LANG / LC_ALL / TZ set", inp.clone(), envdir.clone(), vec![("LANG", "de_DE.UTF-8".into()), ("LC_ALL", "tr_TR.UTF-8".into()), ("TZ", "Pacific/Kiritimati".into())], false),
                    ("RUST_LOG / RUST_BACKTRACE / SOURCE_DATE_EPOCH / CARGO_MANIFEST_DIR set", inp.clone(), envdir.clone(), vec![("RUST_LOG", "trace".into()), ("RUST_BACKTRACE", "full".into()), ("SOURCE_DATE_EPOCH", "1".into()), ("CARGO_MANIFEST_DIR", other.to_str().unwrap().into()), ("LOGOS_DEBUG", "1".into())], false),
                    ("an environment holding PATH only", inp.clone(), envdir.clone(), vec![("PATH", path_var.clone())], true),
                    ("PATH with an empty directory in front", inp.clone(), envdir.clone(), vec![("PATH", format!("{}:{path_var}", nofmt.to_str().unwrap()))], false),
                    ("PATH without rustfmt", inp.clone(), envdir.clone(), vec![("PATH", nofmt.to_str().unwrap().into())], false),
                    ("PATH with a failing rustfmt", inp.clone(), envdir.clone(), vec![("PATH", badfmt.to_str().unwrap().into())], false),
                ];
                for (label, input, cwd, envs, clear) in devs {
                    let mut c = Command::new(&cli);
                    c.arg(input.to_str().unwrap());
                    if fmt {
                        c.arg("--format");
                    }
                    c.current_dir(&cwd);
                    if clear {
                        c.env_clear();
                    }
                    for (k, v) in &envs {
                        c.env(k, v);
                    }
                    let o = c.output().expect("run logos-cli");
                    n_env += 1;
                    if o.status.success() && o.stdout != base.stdout && rep.violations.len() < 12 {
                        rep.violations.push(Violation {
                            key: format!("ENVIRONMENT-DEPENDENT/{name}/{fmt}/{label}"),
                            tag: "ENVIRONMENT-DEPENDENT".into(),
                            case: format!("{name}{}: {label}", if fmt { " --format" } else { "" }),
                            detail: format!("the invocation succeeds but prints {} bytes that differ from the {} bytes printed in the default environment", o.stdout.len(), base.stdout.len()),
                            replay: json!({"kind": "c16cli", "tag": "ENVIRONMENT-DEPENDENT", "name": name}),
                        });
                    }
                }
            }
        }
        rep.count("environment_deviation_runs", n_env);
        rep.count("traces_validated_against_impl", n_env);
    }
    for r in results {
        rep.count("programs", 1);
        rep.count("supplement_process_seed_samples", runs as u64);
        rep.count("traces_validated_against_impl", runs as u64);
        if let Some(v) = r {
            rep.violations.push(v);
        }
    }
    rep.notes.push("separate-process runs of the real CLI are a SAMPLE of hash seeds (supplement to the exhaustive seam exploration)".into());
    let _ = std::fs::remove_dir_all(&work);
    rep
}
