//! User fragments must reach the generated code verbatim (C13: "its return value determines the
//! item" presupposes that the callback the user wrote is the callback that runs; C19: "rather than
//! mis-compiled"). Exhaustive over a grammar of inline-closure body shapes x callback positions.
use crate::Args;
use proc_macro2::{Delimiter, TokenStream, TokenTree};
use rayon::prelude::*;
use serde_json::json;
use vcore::report::{Report, Violation};

pub fn flatten(ts: TokenStream, out: &mut Vec<String>) {
    for t in ts {
        match t {
            TokenTree::Group(g) => {
                let (o, c) = match g.delimiter() {
                    Delimiter::Parenthesis => ("(", ")"),
                    Delimiter::Brace => ("{", "}"),
                    Delimiter::Bracket => ("[", "]"),
                    Delimiter::None => ("", ""),
                };
                if !o.is_empty() {
                    out.push(o.into());
                }
                flatten(g.stream(), out);
                if !c.is_empty() {
                    out.push(c.into());
                }
            }
            other => out.push(other.to_string()),
        }
    }
}

fn contains(hay: &[String], needle: &[String]) -> bool {
    !needle.is_empty() && hay.windows(needle.len()).any(|w| w == needle)
}

/// the token sequences of which one has to appear: the body itself, or - when the body is exactly
/// one `{ .. }` block, or one parenthesised expression without a top-level comma (not a tuple) -
/// its content, which means the same
fn expected_bodies(body: &str) -> Vec<Vec<String>> {
    let ts: TokenStream = body.parse().expect("harness: body lexes");
    let v: Vec<TokenTree> = ts.clone().into_iter().collect();
    let mut whole = vec![];
    flatten(ts, &mut whole);
    let mut out = vec![whole];
    if let [TokenTree::Group(g)] = v.as_slice() {
        let top_comma = g.stream().into_iter().any(|t| matches!(&t, TokenTree::Punct(p) if p.as_char() == ','));
        if g.delimiter() == Delimiter::Brace || (g.delimiter() == Delimiter::Parenthesis && !top_comma) {
            let mut inner = vec![];
            flatten(g.stream(), &mut inner);
            out.push(inner);
        }
    }
    out
}

#[derive(Clone, serde::Serialize, serde::Deserialize)]
pub struct FragCase {
    pub desc: String,
    pub src: String,
    pub body: String,
    pub arg: String,
}

pub fn cases(thorough: bool) -> Vec<FragCase> {
    // heads: what the body starts with; tails: what may follow a complete primary expression
    let heads = [
        "lex.slice().len()", "(lex.slice().len())", "(lex.slice().len() as u32)", "(1, lex.slice().len())", "[1u8, 2u8]", "[lex.slice().len(); 2]",
        "{ lex.slice().len() }", "{ let n = lex.slice().len(); n }", "!(lex.slice().is_empty())", "-(1i32)", "&(lex.slice())[1..]", "lex.slice()[(1)..].len()",
        "((lex.slice()))", "if (lex.slice().len() > 1) { 1 } else { 2 }", "match (lex.slice().len()) { 0 => 1, _ => 2 }", "Some((lex.slice().len()))", "(|| 3)()", "()",
        "unsafe { f(lex) }", "loop { break (1) }",
    ];
    let tails = ["", "+ 1", ".max(2)", "[0]", "as u64", "== 1", "&& false", "?", ".0", ".pow(2) + (3)", "; 7", "- (1) - [2][0]", "..", "| 1 | (2)"];
    let args = if thorough { vec!["lex", "l", "_x"] } else { vec!["lex", "l"] };
    let mut v = vec![];
    for h in heads {
        for t in tails {
            // `; 7` only makes sense inside a block
            let body = if *t == *"; 7" { format!("{{ {h}; 7 }}") } else { format!("{h} {t}").trim().to_string() };
            for arg in &args {
                let body = body.replace("lex", arg);
                let cl = format!("|{arg}| {body}");
                let mut push = |desc: &str, src: String| v.push(FragCase { desc: desc.into(), src, body: body.clone(), arg: arg.to_string() });
                push("token positional", format!("enum T {{ #[token(\"a\", {cl})] A(u8) }}"));
                push("regex positional + priority", format!("enum T {{ #[regex(\"a+\", {cl}, priority = 3)] A(u8) }}"));
                push("regex callback =", format!("enum T {{ #[regex(\"a+\", priority = 3, callback = {cl})] A(u8), #[token(\"b\")] B }}"));
                push("unit variant", format!("enum T {{ #[token(\"a\", {cl})] A }}"));
                push("skip positional", format!("#[logos(skip(\"a\", {cl}))] enum T {{ #[token(\"b\")] B }}"));
                push("skip callback =", format!("#[logos(skip(\"a\", callback = {cl}, priority = 9))] enum T {{ #[token(\"b\")] B }}"));
                push("error callback =", format!("#[logos(error(E, callback = {cl}))] enum T {{ #[token(\"b\")] B }}"));
                push("error positional", format!("#[logos(error(E, {cl}))] enum T {{ #[token(\"b\")] B }}"));
            }
        }
    }
    v
}

pub fn eval(c: &FragCase) -> Option<Violation> {
    let mk = |tag: &str, detail: String| {
        Some(Violation { key: format!("{tag}/{}: {}", c.desc, c.src), tag: tag.into(), case: format!("{}: {}", c.desc, c.src), detail, replay: json!({"kind": "c13cb", "tag": tag, "case": c}) })
    };
    if c.src.parse::<TokenStream>().is_err() {
        return None;
    }
    for sm in [false, true] {
        let g = vdrive::generate(&c.src, sm);
        if let Some(p) = &g.observed.panicked {
            return mk("PANIC", format!("generate() panicked: {p}"));
        }
        if !g.observed.accepted {
            // a closure the derive refuses is loud, not a mis-compilation; every body here is a
            // well-formed token sequence after `|arg|`, so a refusal is still reported
            return mk("CALLBACK-REFUSED", format!("well-formed inline callback refused: {:?}", g.observed.errors));
        }
        let mut hay = vec![];
        flatten(g.tokens.clone().unwrap(), &mut hay);
        let wants = expected_bodies(&c.body);
        let want = wants[0].clone();
        if !wants.iter().any(|w| w.is_empty() || contains(&hay, w)) {
            // show what arrived instead: the tokens following `let <arg> = lex ;`
            let intro = vec!["let".to_string(), c.arg.clone(), "=".into(), "lex".into(), ";".into()];
            let at = hay.windows(intro.len()).position(|w| w == intro.as_slice());
            let got = at.map(|i| hay[i + intro.len()..(i + intro.len() + want.len() + 4).min(hay.len())].join(" ")).unwrap_or_else(|| "<no `let arg = lex;` in the output>".into());
            return mk("CALLBACK-BODY-ALTERED", format!("the generated code does not contain the closure body `{}` (code generator: {}); after `let {} = lex;` it has: {got}", c.body, if sm { "state machine" } else { "tail call" }, c.arg));
        }
        // the binding of the closure parameter must be there as well
        let intro = vec!["let".to_string(), c.arg.clone(), "=".into(), "lex".into(), ";".into()];
        if !contains(&hay, &intro) {
            return mk("CALLBACK-ARG-LOST", format!("no `let {} = lex;` in the generated code", c.arg));
        }
    }
    None
}

pub fn c13cb(a: &Args) -> Report {
    let mut rep = Report::new(&a.prop, "vgraph c13cb (inline callback fidelity, library path)", &a.tier_name);
    let thorough = a.tier == vcore::enumerate::Tier::Thorough;
    rep.bounds.insert("rule".into(), "inline closures: 20 body heads x 14 tails x parameter names x 8 callback positions (token / regex / skip / error, positional and `callback =`), both code generators; oracle: the body's token sequence (a body that is exactly one block may be unwrapped) occurs contiguously in generate()'s output, preceded somewhere by `let <param> = lex;`. Non-trivial = the body does not consist of a single group or a group-free expression".into());
    let cs = cases(thorough);
    let outs: Vec<Option<Violation>> = cs.par_iter().map(eval).collect();
    for (c, o) in cs.iter().zip(outs) {
        rep.count("evaluations", 1);
        rep.count("programs", 1);
        let toks: Vec<TokenTree> = c.body.parse::<TokenStream>().map(|t| t.into_iter().collect()).unwrap_or_default();
        if toks.len() > 1 && toks.iter().any(|t| matches!(t, TokenTree::Group(_))) {
            rep.count("distinct_nontrivial", 1);
        }
        if let Some(v) = o {
            rep.observe(&format!("violations_{}", v.tag), 1);
            if rep.violations.len() < 40 {
                rep.violations.push(v);
            }
        }
        if rep.samples.len() < 4 && rep.counts["evaluations"] % 1201 == 77 {
            rep.samples.push(json!({"desc": c.desc, "source": c.src, "body": c.body}));
        }
    }
    rep
}
