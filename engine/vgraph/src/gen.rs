//! `vgraph gen`: write the compiled sub-corpus for Layer 2 - for every selected definition and
//! mode the REAL generate() output of both code generators as Rust modules, plus corpus.json
//! (spec + captured graph) for the replay harness.
use crate::Args;
use rayon::prelude::*;
use serde::{Deserialize, Serialize};
use std::collections::BTreeSet;
use std::fmt::Write as _;
use vcore::enumerate::Tier;
use vcore::graph::Graph;
use vcore::spec::{Kind, Spec};

pub const SHARDS: usize = 8;

#[derive(Serialize, Deserialize, Clone)]
pub struct Entry {
    pub idx: usize,
    pub name: String,
    pub spec: Spec,
    pub graph: Graph,
}

pub fn select(tier: Tier, seed: u64) -> Vec<(String, Spec)> {
    let mut v: Vec<(String, Spec)> = vec![];
    for (n, s, _) in vcore::curated::curated() {
        v.push((n.to_string(), s.clone()));
        if s.utf8 {
            v.push((format!("{n}__b"), s.bytes_mode()));
        }
    }
    // every byte value as an if-chain comparison operand (`byte == X`, `X..=Y`): two single-byte
    // tokens per definition keep the root at <= 2 out-edges, i.e. on the inline-compare path
    for b in 0..128u8 {
        v.push((format!("bytecmp{b}"), Spec::new(false, vec![vcore::spec::Pat::btoken(&[b]), vcore::spec::Pat::btoken(&[255 - b])])));
    }
    for b in (0..248u8).step_by(8) {
        let class = format!("[\\x{:02x}-\\x{:02x}]x", b, b + 2);
        let class2 = format!("[\\x{:02x}-\\x{:02x}\\x{:02x}-\\x{:02x}]y", b + 3, b + 4, b + 6, b + 7);
        v.push((format!("byterange{b}"), Spec::new(false, vec![vcore::spec::Pat::bregex(class.as_bytes()), vcore::spec::Pat::bregex(class2.as_bytes())])));
    }
    // "every byte but one / but two" classes on a non-looping edge of a state with at most two
    // out-edges (emitted as a range test plus `!=` exceptions), alone and next to a literal token
    // that continues with the excluded byte; the ASCII case-folded form has two holes
    for (k, h) in [0x00u8, b'\n', b'q', 0x40, 0x7f, 0x80, 0xfe, 0xff].into_iter().enumerate() {
        use vcore::spec::Pat;
        let one = format!("x[^\\x{h:02x}]y");
        v.push((format!("bytehole1_{k}"), Spec::new(false, vec![Pat::bregex(one.as_bytes())])));
        for (j, h2) in [h ^ 0x20, h.wrapping_add(1), h.wrapping_add(2)].into_iter().enumerate() {
            let two = format!("x[^\\x{h:02x}\\x{h2:02x}]y");
            v.push((format!("bytehole2_{k}_{j}"), Spec::new(false, vec![Pat::bregex(two.as_bytes())])));
        }
        let tok = [b'\\', h];
        let rest = b"\\\\[\\x00-\\xFF]?".to_vec();
        v.push((format!("bytehole_tok_{k}"), Spec::new(false, vec![Pat::btoken(&tok), Pat::bregex(&rest)])));
        let tok2 = [b'$', h, h];
        v.push((format!("bytehole_tok2_{k}"), Spec::new(false, vec![Pat::btoken(&tok2), Pat::bregex(b"\\$(?s-u:.)?(?s-u:.)?").prio(1), Pat::bregex(b"[a-z]+")])));
    }
    v.push(("bytehole_icase".into(), Spec::new(false, vec![vcore::spec::Pat::bregex(b"'[^q]'").icase(), vcore::spec::Pat::bregex(b"[a-zA-Z]+")])));
    v.push(("bytehole_icase_skip".into(), Spec::new(false, vec![vcore::spec::Pat::skip("<[^a]>").icase(), vcore::spec::Pat::bregex(b"[a-zA-Z<>]")])));
    // a sample of the C10 (literal / ignore(case)) and C11 (subpattern) families, replayed by
    // their own checks on the compiled lexers
    {
        use vcore::spec::{Kind, Lit, Pat};
        let lits = ["k", "K", "ß", "σς", "é.", "a+b", "[x]", "s\\", "Kk", "€$", "(a|b)", "ſ"];
        for (i, w) in lits.iter().enumerate() {
            for (j, ic) in [false, true].iter().enumerate() {
                let mut p = Pat::new(Kind::Token, Lit::Str(w.to_string()));
                p.icase = *ic;
                v.push((format!("c10_tok{i}_{j}"), Spec::new(true, vec![p.clone(), Pat::regex("[a-z]").prio(1)])));
                let mut sk = Pat::new(Kind::Skip, Lit::Str(crate::families::escape_str_pub(w)));
                sk.icase = *ic;
                v.push((format!("c10_skip{i}_{j}"), Spec::new(true, vec![sk, Pat::token("zz")])));
            }
        }
        for (i, w) in [&b"\x80"[..], b"a\xffK", b"\x00k", b"K\xe9"].iter().enumerate() {
            for (j, ic) in [false, true].iter().enumerate() {
                let mut p = Pat::new(Kind::Token, Lit::Bytes(w.to_vec()));
                p.icase = *ic;
                v.push((format!("c10_btok{i}_{j}"), Spec::new(false, vec![p, Pat::bregex(b"[a-z]").prio(1)])));
            }
        }
        for (i, s) in crate::families::c11_specs(Tier::Quick).into_iter().enumerate() {
            if i % 23 == 0 {
                v.push((format!("c11_{i}"), s));
            }
        }
    }
    // first definition of every distinct graph-shape signature met while enumerating the family
    let fam = vcore::enumerate::family(Tier::Quick);
    let shapes: Vec<Option<(String, usize)>> = fam
        .par_iter()
        .map(|s| {
            let o = crate::common::observe(s, false).1;
            if o.accepted {
                o.graph.map(|g| (g.signature(), g.states.len()))
            } else {
                None
            }
        })
        .collect();
    let limit = if tier == Tier::Thorough { 400 } else { 100 };
    let mut seen = BTreeSet::new();
    let mut reps: Vec<(String, Spec)> = vec![];
    // VERIF_SEED rotates which representative of a signature is taken
    let n = fam.len();
    let rot = (seed as usize) % n.max(1);
    for k in 0..n {
        let i = (k + rot) % n;
        if let Some((sh, _)) = &shapes[i] {
            if seen.insert(sh.clone()) {
                reps.push((format!("shape{}", seen.len()), fam[i].clone()));
            }
        }
    }
    // prefer shapes with more distinct features (longer signatures) when over the limit
    reps.sort_by_key(|(_, s)| std::cmp::Reverse(s.short().len()));
    let step = (reps.len() / limit).max(1);
    for (n, s) in reps.into_iter().step_by(step).take(limit) {
        if s.utf8 {
            v.push((format!("{n}__b"), s.clone().bytes_mode()));
        }
        v.push((n, s));
    }
    v
}

fn module(out: &mut String, modname: &str, spec: &Spec, tokens: &str) {
    let variants: Vec<String> = (0..spec.pats.len()).filter(|i| spec.pats[*i].kind != Kind::Skip).map(|i| format!("V{i}")).collect();
    let _ = writeln!(out, "pub mod {modname} {{");
    let _ = writeln!(out, "    #[derive(Debug, Clone, Copy, PartialEq)]\n    pub enum T {{ {} }}", variants.join(", "));
    let _ = writeln!(out, "    {tokens}");
    let arms: Vec<String> = (0..spec.pats.len()).filter(|i| spec.pats[*i].kind != Kind::Skip).map(|i| format!("T::V{i} => {i}")).collect();
    if arms.is_empty() {
        let _ = writeln!(out, "    impl vrt_api::Tok for T {{ fn id(&self) -> u16 {{ match *self {{}} }} }}");
    } else {
        let _ = writeln!(out, "    impl vrt_api::Tok for T {{ fn id(&self) -> u16 {{ match self {{ {} }} }} }}", arms.join(", "));
    }
    let _ = writeln!(out, "}}");
}

pub fn gen(a: &Args) {
    let out_dir = a.out.clone();
    std::fs::create_dir_all(&out_dir).unwrap();
    let sel = select(a.tier, a.seed);
    // generate both back ends
    let gens: Vec<Option<(String, String, Graph)>> = sel
        .par_iter()
        .map(|(_, spec)| {
            let src = spec.render("T", "");
            let tc = vdrive::generate(&src, false);
            let sm = vdrive::generate(&src, true);
            if !tc.observed.accepted || !sm.observed.accepted {
                return None;
            }
            // only definitions the reference also considers implementable are compiled (a wrongly
            // accepted definition is reported by Layer 1; running it could hang the harness)
            let out = crate::common::process_observed(spec, &tc.observed);
            if out.reject_reason.is_some() || !out.explored {
                return None;
            }
            let g = tc.observed.graph?;
            if sm.observed.graph.as_ref() != Some(&g) {
                return None;
            }
            Some((tc.tokens?.to_string(), sm.tokens?.to_string(), g))
        })
        .collect();
    let mut entries: Vec<Entry> = vec![];
    let mut shards: Vec<String> = vec![String::new(); SHARDS];
    let mut dispatch: Vec<String> = vec![String::new(); SHARDS];
    let mut skipped = vec![];
    for ((name, spec), g) in sel.iter().zip(gens) {
        let Some((tc, sm, graph)) = g else {
            skipped.push(name.clone());
            continue;
        };
        let idx = entries.len();
        let sh = idx % SHARDS;
        module(&mut shards[sh], &format!("d{idx}_tc"), spec, &tc);
        module(&mut shards[sh], &format!("d{idx}_sm"), spec, &sm);
        let f = if spec.utf8 { "run_str" } else { "run_bytes" };
        let _ = writeln!(dispatch[sh], "        ({idx}, 0) => vrt_api::{f}::<d{idx}_tc::T>(req, out),");
        let _ = writeln!(dispatch[sh], "        ({idx}, 1) => vrt_api::{f}::<d{idx}_sm::T>(req, out),");
        entries.push(Entry { idx, name: name.clone(), spec: spec.clone(), graph });
    }
    for k in 0..SHARDS {
        let mut s = std::mem::take(&mut shards[k]);
        let _ = writeln!(s, "pub fn run(idx: usize, backend: u8, req: &vrt_api::Req, out: &mut vrt_api::RunBuf) -> bool {{\n    match (idx, backend) {{\n{}        _ => return false,\n    }}\n    true\n}}", dispatch[k]);
        write_if_changed(&format!("{out_dir}/shard{k}.rs"), &s);
    }
    write_if_changed(&format!("{out_dir}/corpus.json"), &serde_json::to_string(&entries).unwrap());
    eprintln!("gen: {} definitions compiled ({} selected, {} not accepted: {:?})", entries.len(), sel.len(), skipped.len(), &skipped[..skipped.len().min(8)]);
}

fn write_if_changed(path: &str, content: &str) {
    if let Ok(old) = std::fs::read_to_string(path) {
        if old == content {
            return;
        }
    }
    std::fs::write(path, content).unwrap();
}
