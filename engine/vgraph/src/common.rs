//! Shared per-definition processing: real generate() -> captured graph -> reference analysis ->
//! product exploration and token-level verdicts.
use serde_json::json;
use vcore::analysis::{self, MustReject, Observed, RefInfo};
use vcore::report::{Report, Violation};
use vcore::spec::{Kind, Spec};

pub const MAX_REF_STATES: usize = 20_000;
pub const MAX_PRODUCT_STATES: usize = 400_000;

#[derive(Debug, Clone)]
pub struct Finding {
    pub tag: String,
    pub detail: String,
    pub path: Vec<u8>,
    pub at_end: bool,
}

#[derive(Debug, Default)]
pub struct DefOut {
    pub accepted: bool,
    pub explored: bool,
    pub complete: bool,
    pub states: usize,
    pub transitions: usize,
    pub findings: Vec<Finding>,
    pub reject_reason: Option<String>,
    pub unexpected_reject: Option<String>,
    pub shape: Option<String>,
    pub feats: Vec<&'static str>,
    pub partial_points: usize,
    pub late_overreads: usize,
    pub sem_agree: usize,
    pub sem_differ: usize,
    pub sem_differ_nolook: bool,
}

pub fn parse_disamb(errors: &[String]) -> Vec<Vec<usize>> {
    errors
        .iter()
        .filter(|e| e.starts_with("Disambiguation"))
        .map(|r| r.split(|c: char| !c.is_ascii_digit()).filter(|x| !x.is_empty()).filter_map(|x| x.parse().ok()).collect())
        .collect()
}

pub fn observe(spec: &Spec, state_machine: bool) -> (String, Observed) {
    let src = spec.render("T", "");
    let g = vdrive::generate(&src, state_machine);
    let mut obs = g.observed;
    if spec.utf8 {
        // the str mode is the default: spelling it out must not change anything
        let g2 = vdrive::generate(&format!("#[logos(utf8 = true)]\n{src}"), state_machine);
        if g2.observed.accepted != obs.accepted || g2.observed.graph != obs.graph || g2.observed.panicked != obs.panicked {
            obs.explicit_default_differs = Some(format!(
                "with an explicit #[logos(utf8 = true)]: accepted {}, {} (without it: accepted {}, {})",
                g2.observed.accepted,
                g2.observed.errors.first().map(|e| e.lines().next().unwrap_or("").to_string()).unwrap_or_else(|| "no diagnostic".into()),
                obs.accepted,
                obs.errors.first().map(|e| e.lines().next().unwrap_or("").to_string()).unwrap_or_else(|| "no diagnostic".into())
            ));
        }
    }
    (src, obs)
}

/// Everything Layer 1 can say about one definition.
pub fn process(spec: &Spec) -> DefOut {
    let (_src, obs) = observe(spec, false);
    process_observed(spec, &obs)
}

pub fn process_observed(spec: &Spec, obs: &Observed) -> DefOut {
    process_observed_opt(spec, obs, false)
}

/// `utf8_paths_only`: explore only valid UTF-8 inputs even for a byte-mode definition (C12)
pub fn process_observed_opt(spec: &Spec, obs: &Observed, utf8_paths_only: bool) -> DefOut {
    let mut out = DefOut { accepted: obs.accepted, complete: true, ..Default::default() };
    let add = |out: &mut DefOut, tag: &str, detail: String| out.findings.push(Finding { tag: tag.into(), detail, path: vec![], at_end: false });
    if let Some(p) = &obs.panicked {
        add(&mut out, "PANIC", format!("generate() panicked: {p}"));
        return out;
    }
    if let Some(d) = &obs.explicit_default_differs {
        add(&mut out, "EXPLICIT-DEFAULT", d.clone());
    }
    let bounds = obs.graph.as_ref().map(|g| g.range_boundaries()).unwrap_or_default();
    let fallback: Option<Vec<usize>> = obs.graph.as_ref().map(|g| g.leaves.iter().map(|l| l.priority).collect());
    let info: RefInfo = match analysis::analyse(spec, &bounds, fallback.as_deref(), MAX_REF_STATES) {
        Err(m) => {
            out.reject_reason = Some(m.tag().to_string());
            if obs.accepted {
                let tag = match m {
                    MustReject::UndefinedSubpattern(_) | MustReject::BadSubpattern(_) => "UNDEFINED-SUB-ACCEPTED",
                    MustReject::UnsupportedLook(_) => "UNSUPPORTED-ACCEPTED",
                    _ => "UNPARSABLE-ACCEPTED",
                };
                add(&mut out, tag, format!("the definition must be rejected ({m:?}) but generate() produced an implementation"));
            }
            return out;
        }
        Ok(i) => i,
    };
    out.sem_agree = info.semantic_agree;
    out.sem_differ = info.semantic_differ.len();
    out.sem_differ_nolook = !info.ra.has_look && !info.semantic_differ.is_empty();
    // ---- C09: priorities (whenever the graph was built)
    if let Some(g) = &obs.graph {
        if g.leaves.len() != spec.pats.len() {
            // some pattern was dropped by an earlier diagnostic; only a problem if accepted
            if obs.accepted {
                add(&mut out, "LEAF-COUNT", format!("{} leaves for {} patterns", g.leaves.len(), spec.pats.len()));
            }
        } else {
            for (i, e) in info.expected_prios.iter().enumerate() {
                if let (Some(e), Some(l)) = (e, g.leaves.get(i)) {
                    if l.priority != *e {
                        add(&mut out, "PRIO-MISMATCH", format!("leaf {i} {} has priority {} but the rule gives {}", l.display, l.priority, e));
                    }
                }
            }
            for (i, p) in spec.pats.iter().enumerate() {
                if let Some(l) = g.leaves.get(i) {
                    if l.skip != (p.kind == Kind::Skip) {
                        add(&mut out, "LEAF-KIND", format!("leaf {i} skip={} but pattern kind {:?}", l.skip, p.kind));
                    }
                }
            }
        }
    }
    // ---- C08: conflicts <=> Disambiguation, inside the domain
    let in_c08_domain = info.nullable.is_empty()
        && !info.start_lookbehind
        && obs.graph.as_ref().map_or(false, |g| g.leaves.len() == spec.pats.len() && !g.errors.iter().any(|e| e.starts_with("NoUniversalStart") || e.starts_with("EmptyMatch")));
    if in_c08_domain {
        let g = obs.graph.as_ref().unwrap();
        let dis = parse_disamb(&g.errors);
        let mut logos_union: Vec<usize> = dis.iter().flatten().copied().collect();
        logos_union.sort();
        logos_union.dedup();
        let mut ref_union: Vec<usize> = info.conflicts.iter().flat_map(|c| c.0.iter().copied()).collect();
        ref_union.sort();
        ref_union.dedup();
        if info.conflicts.is_empty() && !dis.is_empty() {
            add(&mut out, "CONFLICT-SPURIOUS", format!("the derive reports an ambiguity between leaves {logos_union:?} but no string is matched by two top-priority patterns"));
        } else if !info.conflicts.is_empty() && dis.is_empty() {
            let (c, w) = &info.conflicts[0];
            out.findings.push(Finding { tag: "CONFLICT-MISSED".into(), detail: format!("patterns {c:?} share the top priority on a common string but no ambiguity is reported"), path: w.clone(), at_end: false });
        } else if logos_union != ref_union {
            add(&mut out, "CONFLICT-NAMES", format!("ambiguity reported for leaves {logos_union:?}, reference finds {ref_union:?}"));
        } else if !dis.is_empty() {
            for l in &logos_union {
                let d = &g.leaves[*l].display;
                if !obs.errors.iter().any(|m| m.contains(d.as_str())) {
                    add(&mut out, "CONFLICT-NAMES", format!("no compile_error names the conflicting pattern {d}"));
                }
            }
            if obs.accepted {
                add(&mut out, "CONFLICT-MISSED", "graph has a Disambiguation error but the output carries no compile_error".into());
            }
        }
    }
    // ---- C09 consequence: a literal token is never beaten on its own text by a default-priority regex
    for (ti, t) in spec.pats.iter().enumerate() {
        if t.kind != Kind::Token || t.icase {
            continue;
        }
        let w = t.lit.bytes();
        if w.is_empty() || (spec.utf8 && std::str::from_utf8(&w).is_err()) {
            continue;
        }
        let Some(g) = obs.graph.as_ref().filter(|g| obs.accepted && g.leaves.len() == spec.pats.len() && g.structural().is_empty()) else { break };
        let run = g.run(&w, spec.utf8, false);
        if let Some(vcore::graph::Item::Tok(l, 0, e)) = run.items.first() {
            let p = &spec.pats[*l];
            if *l != ti && *e == w.len() && p.kind != Kind::Token && p.priority.is_none() && t.priority.is_none() {
                out.findings.push(Finding { tag: "TOKEN-BEATEN".into(), detail: format!("token leaf {ti} loses on its own text to default-priority regex leaf {l}"), path: w.clone(), at_end: true });
            }
        }
    }
    let must = info.must_reject(spec);
    if !must.is_empty() {
        out.reject_reason = Some(must.iter().map(|m| m.tag()).collect::<Vec<_>>().join("+"));
        if obs.accepted {
            for m in &must {
                let tag = match m {
                    MustReject::Nullable(_) => "NULLABLE-ACCEPTED",
                    MustReject::StartLookbehind => "LOOKBEHIND-ACCEPTED",
                    MustReject::NonUtf8(_) | MustReject::NonUtf8Subpattern(_) => "NONUTF8-ACCEPTED",
                    MustReject::GreedyDot(_) => "GREEDY-ACCEPTED",
                    MustReject::Conflict(_) => continue, // reported above
                    _ => "MUSTREJECT-ACCEPTED",
                };
                add(&mut out, tag, format!("must be rejected ({m:?}) but was accepted"));
            }
        }
        // a definition that had to be rejected is not explored further
        if !obs.accepted || must.iter().any(|m| !matches!(m, MustReject::GreedyDot(_))) {
            return out;
        }
    }
    if !obs.accepted {
        out.unexpected_reject = Some(obs.errors.first().cloned().unwrap_or_default());
        return out;
    }
    let Some(g) = &obs.graph else {
        add(&mut out, "NO-GRAPH", "accepted but no graph was captured".into());
        return out;
    };
    // ---- product exploration
    if std::env::var("VG_NOPRODUCT").is_ok() {
        return out;
    }
    let l1 = analysis::layer1(spec, &info, g, MAX_PRODUCT_STATES, if utf8_paths_only { Some(true) } else { None });
    out.explored = true;
    out.complete = l1.complete;
    out.states = l1.stats.states;
    out.transitions = l1.stats.transitions;
    out.partial_points = l1.stats.partial_points;
    out.late_overreads = l1.stats.late_accept_overreads;
    for v in l1.violations {
        out.findings.push(Finding { tag: v.tag, detail: v.detail, path: v.path, at_end: v.at_end });
    }
    // shape features
    out.shape = Some(g.signature());
    let mut feats = vec![];
    if g.states.iter().any(|s| s.eoi.is_some()) {
        feats.push("eoi_edge");
    }
    if g.states.iter().any(|s| s.early.is_some()) {
        feats.push("early_accept");
    }
    if g.states.iter().any(|s| s.accept.is_some()) {
        feats.push("late_accept");
    }
    if g.states.iter().enumerate().any(|(i, s)| s.normal.iter().any(|(_, t)| *t == i)) {
        feats.push("self_loop");
    }
    if g.states.iter().any(|s| s.normal.len() > 2) {
        feats.push("jump_table");
    }
    if g.states.iter().any(|s| s.normal.iter().any(|(rs, _)| vcore::graph::cmp_ops(rs).0 > 2)) {
        feats.push("lut");
    }
    if g.leaves.iter().any(|l| l.skip) {
        feats.push("skip");
    }
    if info.ra.has_look {
        feats.push("look_around");
    }
    out.feats = feats;
    out
}

pub fn tag_property(tag: &str) -> &'static [&'static str] {
    match tag {
        "OUTCOME" => &["C01"],
        "EARLY-STOP" => &["C01", "C02"],
        "ERRSPAN" | "OVERREAD" => &["C02"],
        "EOI-STRUCT" | "ROOT" | "NULLABLE-ACCEPTED" => &["C03"],
        "STEP" => &["C03", "C20"],
        "DETERMINISM" => &["C20", "C01"],
        "NONUTF8-ACCEPTED" | "EXPLICIT-DEFAULT" => &["C04", "C12"],
        "PARTIAL-UNSOUND" | "PARTIAL-LATE" => &["C07"],
        "CONFLICT-MISSED" | "CONFLICT-SPURIOUS" | "CONFLICT-NAMES" => &["C08"],
        "PRIO-MISMATCH" | "TOKEN-BEATEN" => &["C09"],
        "PANIC" | "LOOKBEHIND-ACCEPTED" | "UNSUPPORTED-ACCEPTED" | "GREEDY-ACCEPTED" | "UNDEFINED-SUB-ACCEPTED" | "UNPARSABLE-ACCEPTED" | "MUSTREJECT-ACCEPTED" => &["C19"],
        "LEAF-COUNT" | "LEAF-KIND" | "NO-GRAPH" => &["C01"],
        _ => &[],
    }
}

/// Fold one definition's outcome into a report for `prop`.
pub fn fold(rep: &mut Report, prop: &str, spec: &Spec, out: &DefOut, extra_tags: &[&str]) {
    rep.count("programs", 1);
    if out.accepted {
        rep.count("accepted", 1);
    } else if out.unexpected_reject.is_some() {
        rep.count("rejected_without_reference_reason", 1);
    } else {
        rep.count("rejected_as_expected", 1);
    }
    if let Some(r) = &out.reject_reason {
        rep.observe(&format!("reject:{r}"), 1);
    }
    rep.observe("c09_semantic_shortest_match_agrees_with_rule", out.sem_agree as u64);
    rep.observe("c09_semantic_differs_unmatchable_branch", out.sem_differ as u64);
    if out.sem_differ_nolook && rep.notes.len() < 8 {
        rep.notes.push(format!("C09-ORACLE-DISAGREE (no look-around): {}", spec.short()));
    }
    if out.explored {
        rep.count("explored", 1);
        rep.count("states", out.states as u64);
        rep.count("transitions", out.transitions as u64);
        rep.count("partial_buffer_ends", out.partial_points as u64);
        rep.observe("late_accept_overreads", out.late_overreads as u64);
        if !out.complete {
            rep.exhaustive = false;
            rep.count("capped_definitions", 1);
        }
        for f in &out.feats {
            rep.observe(&format!("defs_with:{f}"), 1);
        }
    }
    for f in &out.findings {
        let props = tag_property(&f.tag);
        if !(props.contains(&prop) || extra_tags.contains(&f.tag.as_str())) {
            rep.observe(&format!("other_property_tag:{}", f.tag), 1);
            continue;
        }
        rep.violations.push(Violation {
            key: format!("{}/{}", f.tag, spec.short()),
            tag: f.tag.clone(),
            case: spec.short(),
            detail: format!("{} | input {} {}", f.detail, vcore::show(&f.path), if f.at_end { "<end>" } else { "" }),
            replay: json!({"kind": "layer1", "spec": spec, "tag": f.tag, "path_hex": vcore::hex(&f.path), "source": spec.render("T", "")}),
        });
    }
}
