//! Layer 1.5: the emitted code of EVERY enumerated definition (both code generators) is executed
//! by the interpreter of `interp.rs` on model traces of its own captured graph - the transition
//! cover extended by next bytes, all short strings over a representative alphabet, fast-loop runs
//! of every length around the 8-byte batch, and every prefix in partial mode - and must do what the
//! graph interpreter (the model Layer 1 verified against the reference for all inputs) predicts.
use crate::interp::{self, Event, LexModel, Machine, Program, Stop, Val};
use crate::Args;
use rayon::prelude::*;
use serde_json::json;
use std::collections::{BTreeMap, BTreeSet};
use vcore::enumerate::Tier;
use vcore::graph::{Graph, Item, Run};
use vcore::report::{Report, Violation};
use vcore::spec::Spec;
use vcore::utf8;

#[derive(Debug, Clone)]
pub struct CodeFinding {
    pub tag: &'static str,
    pub detail: String,
    pub input: Vec<u8>,
    pub partial: bool,
}

#[derive(Default, Debug)]
pub struct CodeOut {
    pub interpreted: bool,
    pub unsupported: Option<String>,
    pub runs: u64,
    pub next_calls: u64,
    pub full_bytes: bool,
    pub findings: Vec<CodeFinding>,
    pub max_read_ratio_x100: u64,
}

struct Observed {
    run: Run,
    stop: Option<String>,
    fused: bool,
    variant_clash: Option<String>,
    trace_bad: Option<String>,
    ratio_x100: u64,
}

fn leaf_index(p: &Program, s: interp::Sym) -> Option<usize> {
    p.syms.name(s).strip_prefix("Leaf").and_then(|n| n.parse().ok())
}

/// Run the interpreted lexer over `input` the way `vrt`'s `drive!` runs a compiled one.
fn observe(p: &Program, spec: &Spec, g: &Graph, input: &[u8], is_prefix: bool, want_skips: &[(usize, usize, usize)]) -> Observed {
    let lex = LexModel { src: input, is_str: spec.utf8, is_prefix, token_start: 0, token_end: 0, events: vec![], trace: true };
    let mut m = Machine::new(p, lex);
    let mut o = Observed { run: Run { items: vec![], skips: vec![], end_pos: 0, end_start: 0, hung: false }, stop: None, fused: true, variant_clash: None, trace_bad: None, ratio_x100: 0 };
    let some = p.syms.find("Some");
    let okc = p.syms.find("Ok");
    let errc = p.syms.find("Err");
    let budget = 4000 + 600 * (input.len() as u64 + 2) * (input.len() as u64 + 2).min(40);
    loop {
        m.budget = budget;
        let r = m.next();
        let (s, e) = (m.lex.token_start, m.lex.token_end);
        match r {
            Err(Stop::Budget) => {
                o.run.hung = true;
                o.run.end_pos = e;
                o.run.end_start = s;
                break;
            }
            Err(Stop::Panic(msg)) => {
                o.stop = Some(format!("PANIC {msg}"));
                break;
            }
            Err(Stop::Unsupported(msg)) => {
                o.stop = Some(format!("UNSUPPORTED {msg}"));
                break;
            }
            Ok(Val::Ctor(c, f)) if Some(c) == some && f.len() == 1 => {
                match &f[0] {
                    Val::Ctor(rc, inner) if Some(*rc) == okc && inner.len() == 1 => {
                        let leaf = m.last_leaf.and_then(|l| leaf_index(p, l));
                        let Some(l) = leaf else {
                            o.stop = Some("UNSUPPORTED an Ok item without a leaf context".into());
                            break;
                        };
                        // the value must be the variant of that leaf (for a value variant: holding the slice)
                        let want = spec.variant(l);
                        let got = match &inner[0] {
                            Val::Ctor(v, fields) => {
                                if let Some(Val::Slice(a, b)) = fields.first() {
                                    if (*a, *b) != (s, e) {
                                        o.variant_clash = Some(format!("variant field holds source[{a}..{b}] but the span is {s}..{e}"));
                                    }
                                }
                                Some(p.syms.name(*v).to_string())
                            }
                            _ => None,
                        };
                        if want != got && o.variant_clash.is_none() {
                            o.variant_clash = Some(format!("leaf {l} emitted {got:?}, its pattern belongs to variant {want:?}"));
                        }
                        o.run.items.push(Item::Tok(l, s, e));
                    }
                    Val::Ctor(rc, _) if Some(*rc) == errc => o.run.items.push(Item::Err(s, e)),
                    other => {
                        o.stop = Some(format!("UNSUPPORTED item value {other:?}"));
                        break;
                    }
                }
            }
            Ok(Val::Ctor(c, f)) if f.is_empty() && p.syms.name(c) == "None" => {
                o.run.end_pos = e;
                o.run.end_start = s;
                if !is_prefix {
                    m.budget = budget;
                    match m.next() {
                        Ok(Val::Ctor(c2, f2)) if f2.is_empty() && p.syms.name(c2) == "None" => {}
                        _ => o.fused = false,
                    }
                }
                break;
            }
            Ok(other) => {
                o.stop = Some(format!("UNSUPPORTED lex returned {other:?}"));
                break;
            }
        }
        if o.run.items.len() > input.len() + 2 {
            o.run.hung = true;
            break;
        }
    }
    // ---- read trace (C20): within one attempt offsets never decrease and never precede the
    // attempt start, reads <= 2 x bytes examined + 6, attempts start where items / skips start
    let mut starts = vec![];
    let (mut start, mut last, mut far, mut reads) = (0usize, 0usize, 0usize, 0u64);
    let finish = |reads: u64, start: usize, far: usize, bad: &mut Option<String>, ratio: &mut u64| {
        let span = far.saturating_sub(start) as u64 + 1;
        if span > 8 {
            *ratio = (*ratio).max(reads * 100 / span);
        }
        if reads > 2 * span + 6 {
            *bad = Some(format!("{reads} reads for {span} bytes examined (bound {})", 2 * span + 6));
        }
    };
    for ev in &m.lex.events {
        match *ev {
            Event::Next(o2) | Event::Restart(o2) => {
                if reads > 0 {
                    finish(reads, start, far, &mut o.trace_bad, &mut o.ratio_x100);
                }
                starts.push(o2);
                start = o2;
                last = o2;
                far = o2;
                reads = 0;
            }
            Event::Read(off, size) => {
                if off < last {
                    o.trace_bad = Some(format!("read at offset {off} after a read at {last} in the same attempt (attempt start {start})"));
                }
                if off < start {
                    o.trace_bad = Some(format!("read at offset {off} before the attempt start {start}"));
                }
                last = off;
                far = far.max(off.saturating_add(size.max(1)) - 1);
                reads += 1;
            }
        }
    }
    if reads > 0 {
        finish(reads, start, far, &mut o.trace_bad, &mut o.ratio_x100);
    }
    if o.stop.is_none() && !o.run.hung && !is_prefix && o.trace_bad.is_none() {
        let mut segs: Vec<usize> = o.run.items.iter().map(|i| i.span().0).chain(want_skips.iter().map(|s| s.1)).collect();
        segs.sort();
        let body: Vec<usize> = starts.iter().copied().take(segs.len()).collect();
        if body != segs && o.run.items.len() + want_skips.len() == segs.len() {
            o.trace_bad = Some(format!("attempts start at {starts:?}, items and skips start at {segs:?}"));
        }
    }
    let _ = g;
    o
}

/// byte values offered at every state: every range end of the graph and its neighbours, plus
/// bytes the emitted code treats specially
fn reduced_bytes(g: &Graph) -> Vec<u8> {
    let mut s: BTreeSet<u8> = BTreeSet::new();
    for st in &g.states {
        for (rs, _) in &st.normal {
            for &(lo, hi) in rs {
                for b in [lo.wrapping_sub(1), lo, lo.wrapping_add(1), hi.wrapping_sub(1), hi, hi.wrapping_add(1)] {
                    s.insert(b);
                }
            }
        }
    }
    for b in [0u8, b' ', b'a', 0x7f, 0x80, 0xbf, 0xc2, 0xe2, 0xf0, 0xff] {
        s.insert(b);
    }
    s.into_iter().collect()
}

/// one representative per joint class of the graph's edges (ASCII only in str mode) + multi-byte characters
fn alphabet(spec: &Spec, g: &Graph, max: usize) -> Vec<Vec<u8>> {
    let mut by_sig: BTreeMap<Vec<usize>, u8> = BTreeMap::new();
    let mut order: Vec<u8> = (0x20..0x7f).collect();
    order.extend(0..0x20u8);
    order.push(0x7f);
    if !spec.utf8 {
        order.extend(0x80..=0xffu8);
    }
    let mut live = vec![];
    let mut dead = vec![];
    for b in order {
        let sig: Vec<usize> = (0..g.states.len()).map(|s| g.edge(s, b).unwrap_or(usize::MAX)).collect();
        let is_live = sig.iter().any(|t| *t != usize::MAX);
        if !by_sig.contains_key(&sig) {
            by_sig.insert(sig, b);
            if is_live { live.push(vec![b]) } else { dead.push(vec![b]) }
        }
    }
    let mut multi: Vec<Vec<u8>> = vec![];
    let mut chars: BTreeSet<char> = BTreeSet::new();
    for p in &spec.pats {
        if let vcore::spec::Lit::Str(s) = &p.lit {
            chars.extend(s.chars().filter(|c| !c.is_ascii()));
        }
    }
    let mut seen = BTreeSet::new();
    for c in chars.into_iter().chain(['é', '€', '😊']) {
        let bytes = c.to_string().into_bytes();
        let mut sig = vec![];
        for st in 0..g.states.len() {
            let mut cur = Some(st);
            for &b in &bytes {
                cur = cur.and_then(|c| g.edge(c, b));
            }
            sig.push(cur);
        }
        if seen.insert(sig) {
            multi.push(bytes);
        }
    }
    let n_multi = multi.len().min(2);
    let mut out: Vec<Vec<u8>> = live.into_iter().take(max.saturating_sub(n_multi + 1)).collect();
    out.extend(dead.into_iter().take(1));
    out.extend(multi.into_iter().take(n_multi));
    out
}

fn strings(alpha: &[Vec<u8>], l: usize, f: &mut dyn FnMut(&[u8], &[usize])) {
    fn rec(alpha: &[Vec<u8>], l: usize, buf: &mut Vec<u8>, cuts: &mut Vec<usize>, f: &mut dyn FnMut(&[u8], &[usize])) {
        f(buf, cuts);
        if cuts.len() - 1 == l {
            return;
        }
        for s in alpha {
            let n = buf.len();
            buf.extend_from_slice(s);
            cuts.push(buf.len());
            rec(alpha, l, buf, cuts, f);
            cuts.pop();
            buf.truncate(n);
        }
    }
    rec(alpha, l, &mut vec![], &mut vec![0], f);
}

pub struct Params {
    /// transition cover only (range ends +-1), no follow-up symbol, no strings, no partial buffers
    pub light: bool,
    pub full_bytes: bool,
    pub max_alpha: usize,
    pub len: usize,
    pub loop_max: usize,
}

fn inputs(spec: &Spec, g: &Graph, prm: &Params) -> (Vec<Vec<u8>>, Vec<(Vec<u8>, Vec<usize>)>) {
    let is_str = spec.utf8;
    let acc = vcore::product::access_strings(g, is_str);
    let bytes: Vec<u8> = if prm.full_bytes { (0..=255u8).collect() } else { reduced_bytes(g) };
    let alpha = alphabet(spec, g, prm.max_alpha);
    let mut one: Vec<Vec<u8>> = vec![];
    for (si, a) in acc.iter().enumerate() {
        let Some((path, u)) = a else { continue };
        let mut base = path.clone();
        if is_str {
            base.extend_from_slice(utf8::completion(*u));
        }
        one.push(base);
        for &b in &bytes {
            let u2 = if is_str { utf8::step(*u, b) } else { 0 };
            if u2 == utf8::DEAD {
                continue;
            }
            let mut s = path.clone();
            s.push(b);
            if is_str {
                s.extend_from_slice(utf8::completion(u2));
            }
            // and one more symbol after it (what follows the byte that ended or continued the token)
            if let (Some(t), false) = (alpha.first(), prm.light) {
                let mut s2 = s.clone();
                s2.extend_from_slice(t);
                one.push(s2);
            }
            one.push(s);
        }
        // fast loop: runs of every length around the 8-byte batch, with and without an exit symbol
        if let Some((rs, _)) = g.states[si].normal.iter().find(|(_, t)| *t == si) {
            if (!is_str || *u == utf8::BOUNDARY) && !prm.light {
                let mut xs: Vec<u8> = vec![];
                for &(lo, hi) in rs {
                    for b in [lo, hi] {
                        if (!is_str || b < 0x80) && !xs.contains(&b) {
                            xs.push(b);
                        }
                    }
                }
                xs.truncate(2);
                for x in xs {
                    for n in 0..=prm.loop_max {
                        let mut s = path.clone();
                        s.extend(std::iter::repeat(x).take(n));
                        one.push(s.clone());
                        for e in alpha.iter().take(3) {
                            let mut t = s.clone();
                            t.extend_from_slice(e);
                            one.push(t.clone());
                            if n % 4 == 1 {
                                t.extend(std::iter::repeat(x).take(17));
                                one.push(t);
                            }
                        }
                    }
                }
            }
        }
    }
    let mut with_cuts: Vec<(Vec<u8>, Vec<usize>)> = vec![];
    if !prm.light {
        strings(&alpha, prm.len, &mut |s, cuts| with_cuts.push((s.to_vec(), cuts.to_vec())));
    }
    (one, with_cuts)
}

fn diff_tag(want: &Run, got: &Run) -> &'static str {
    if got.hung {
        return "CODE-TILING";
    }
    let toks = |r: &Run| r.items.iter().filter(|i| matches!(i, Item::Tok(..))).cloned().collect::<Vec<_>>();
    if toks(want) != toks(got) {
        return "CODE-TOKENS";
    }
    if want.items != got.items {
        return "CODE-ERRORS";
    }
    "CODE-TILING"
}

pub static T_GEN: std::sync::atomic::AtomicU64 = std::sync::atomic::AtomicU64::new(0);
pub static T_COMPILE: std::sync::atomic::AtomicU64 = std::sync::atomic::AtomicU64::new(0);

pub fn check(spec: &Spec, prm: &Params) -> CodeOut {
    let mut out = CodeOut { full_bytes: prm.full_bytes, ..Default::default() };
    let src = spec.render("T", "");
    let t0 = std::time::Instant::now();
    let gens = [vdrive::generate(&src, false), vdrive::generate(&src, true)];
    T_GEN.fetch_add(t0.elapsed().as_micros() as u64, std::sync::atomic::Ordering::Relaxed);
    if gens.iter().any(|g| !g.observed.accepted || g.observed.graph.is_none() || g.tokens.is_none()) {
        return out;
    }
    let g = gens[0].observed.graph.clone().unwrap();
    if g.leaves.len() != spec.pats.len() || !g.structural().is_empty() || gens[1].observed.graph.as_ref() != Some(&g) {
        // Layer 1 / C16 report these; the comparison below needs a well-formed model
        return out;
    }
    let mut progs = vec![];
    let t1 = std::time::Instant::now();
    for gen in &gens {
        match interp::compile(gen.tokens.clone().unwrap()) {
            Ok(p) => progs.push(p),
            Err(u) => {
                out.unsupported = Some(u.0);
                return out;
            }
        }
    }
    out.interpreted = true;
    T_COMPILE.fetch_add(t1.elapsed().as_micros() as u64, std::sync::atomic::Ordering::Relaxed);
    if std::env::var("VG_CODE_COMPILE_ONLY").is_ok() {
        return out;
    }
    let (one, with_cuts) = inputs(spec, &g, prm);
    if std::env::var("VG_CODE_INPUTS_ONLY").is_ok() {
        out.runs = (one.len() + with_cuts.len()) as u64;
        return out;
    }
    let names = ["tail-call", "state-machine"];
    let add = |out: &mut CodeOut, tag: &'static str, detail: String, input: &[u8], partial: bool| {
        if out.findings.len() < 6 && !out.findings.iter().any(|f| f.tag == tag) {
            out.findings.push(CodeFinding { tag, detail, input: input.to_vec(), partial });
        }
    };
    let run_one = |out: &mut CodeOut, input: &[u8], is_prefix: bool| {
        let want = g.run(input, spec.utf8, is_prefix);
        if want.hung {
            return; // a graph that does not terminate is C03's finding at Layer 1
        }
        let mut got = vec![];
        for (bi, p) in progs.iter().enumerate() {
            let o = observe(p, spec, &g, input, is_prefix, &want.skips);
            out.runs += 1;
            out.next_calls += o.run.items.len() as u64 + 1;
            out.max_read_ratio_x100 = out.max_read_ratio_x100.max(o.ratio_x100);
            if let Some(s) = &o.stop {
                if s.starts_with("UNSUPPORTED") {
                    out.unsupported = Some(s.clone());
                    out.interpreted = false;
                    return;
                }
                add(out, "CODE-PANIC", format!("[{}] the emitted code panics (checked arithmetic / indexing as in a debug build): {s}", names[bi]), input, is_prefix);
                continue;
            }
            let same = o.run.items == want.items && o.run.end_pos == want.end_pos && o.run.hung == want.hung && (!is_prefix || o.run.end_start == want.end_start);
            if !same {
                let tag = if is_prefix { "CODE-PARTIAL" } else { diff_tag(&want, &o.run) };
                add(out, tag, format!("[{}] emitted code yields {:?} (ends at {}{}), the graph predicts {:?} (ends at {})", names[bi], o.run.items, o.run.end_pos, if o.run.hung { ", did not terminate" } else { "" }, want.items, want.end_pos), input, is_prefix);
            } else if !o.fused {
                add(out, "CODE-TILING", format!("[{}] next() after None does not return None again", names[bi]), input, is_prefix);
            }
            if spec.utf8 && std::str::from_utf8(input).is_ok() {
                let st = std::str::from_utf8(input).unwrap();
                let bad = o.run.items.iter().map(|i| i.span()).chain([(o.run.end_start, o.run.end_pos)]).find(|(s, e)| !(st.is_char_boundary(*s.min(&input.len())) && st.is_char_boundary(*e.min(&input.len())) && *e <= input.len()));
                if let Some((s, e)) = bad {
                    add(out, "CODE-BOUNDARY", format!("[{}] span {s}..{e} does not lie on char boundaries of the str input", names[bi]), input, is_prefix);
                }
            }
            if let Some(c) = &o.variant_clash {
                add(out, "CODE-TOKENS", format!("[{}] {c}", names[bi]), input, is_prefix);
            }
            if let Some(t) = &o.trace_bad {
                add(out, "CODE-READS", format!("[{}] {t}", names[bi]), input, is_prefix);
            }
            got.push((o.run.items, o.run.end_pos, o.run.hung));
        }
        if got.len() == 2 && got[0] != got[1] {
            add(out, "CODE-BACKENDS", format!("tail-call code yields {:?} (ends at {}), state-machine code {:?} (ends at {})", got[0].0, got[0].1, got[1].0, got[1].1), input, is_prefix);
        }
    };
    for input in &one {
        run_one(&mut out, input, false);
        if !out.interpreted {
            return out;
        }
    }
    for (input, cuts) in &with_cuts {
        run_one(&mut out, input, false);
        // every prefix as a partial buffer (char boundaries in str mode, every byte otherwise)
        let points: Vec<usize> = if spec.utf8 { cuts.clone() } else { (0..=input.len()).collect() };
        for k in points {
            run_one(&mut out, &input[..k], true);
        }
        if !out.interpreted {
            return out;
        }
    }
    // partial mode at the end of every access string too
    for input in one.iter().filter(|i| i.len() <= 6 && !prm.light).take(400) {
        if !spec.utf8 || std::str::from_utf8(input).is_ok() {
            run_one(&mut out, input, true);
        }
    }
    out
}

pub fn tag_property(tag: &str) -> &'static [&'static str] {
    match tag {
        "CODE-TOKENS" => &["C01", "C06"],
        "CODE-ERRORS" => &["C02", "C06"],
        "CODE-TILING" => &["C03", "C06"],
        "CODE-PARTIAL" => &["C07", "C06"],
        "CODE-BACKENDS" => &["C06"],
        "CODE-BOUNDARY" => &["C04"],
        "CODE-READS" => &["C20"],
        "CODE-PANIC" => &["C03", "C05", "C06"],
        _ => &[],
    }
}

pub fn params(tier: Tier, full: bool) -> Params {
    match tier {
        Tier::Quick => Params { light: false, full_bytes: full, max_alpha: 4, len: 3, loop_max: 18 },
        Tier::Thorough => Params { light: false, full_bytes: full, max_alpha: 6, len: 4, loop_max: 26 },
    }
}

/// `vgraph code`: the whole Layer-1 family through the interpreter.
pub fn code(a: &Args) -> Report {
    let mut rep = Report::new(&a.prop, "vgraph code (emitted code interpreted on model traces)", &a.tier_name);
    let mut specs = vcore::enumerate::family(a.tier);
    // the heavy Unicode definitions are part of this step in BOTH tiers: they are the only ones with
    // hundreds of look-up-table classes (more than 256 masks, dozens of `_TABLE_n`)
    for (_, s, _heavy) in vcore::curated::curated() {
        specs.push(s.clone());
        if s.utf8 {
            specs.push(s.bytes_mode());
        }
    }
    // all 256 next bytes for the first definition of every graph shape (and for every definition in
    // the thorough tier); range ends +-1 and special bytes for the others
    let full_all = a.tier == Tier::Thorough && std::env::var("VG_CODE_REDUCED").is_err();
    let shapes: Vec<Option<String>> = specs
        .par_iter()
        .map(|s| {
            let g = vdrive::generate(&s.render("T", ""), false);
            if g.observed.accepted { g.observed.graph.map(|g| g.signature()) } else { None }
        })
        .collect();
    // quick tier: at most PER_SHAPE definitions of every graph shape (rotated by the seed), the first
    // of them with all 256 next bytes; thorough tier: every definition, all 256 bytes
    const PER_SHAPE: usize = 12;
    let mut seen: BTreeMap<String, usize> = BTreeMap::new();
    let mut full: Vec<bool> = vec![];
    let mut keep: Vec<bool> = vec![];
    let rot = a.seed as usize;
    for s in shapes.iter() {
        match s {
            None => {
                full.push(false);
                keep.push(false);
            }
            Some(s) => {
                let n = seen.entry(s.clone()).or_insert(0);
                *n += 1;
                let k = *n - 1;
                // (thorough: the full input family for up to 96 definitions of every shape, all 256 next
                // bytes for the first 8 of them; every other definition gets the transition cover. The
                // unreduced run - everything for every one of 2.5 M definitions - takes hours and is
                // available with VG_CODE_ALL=1)
                let all = std::env::var("VG_CODE_ALL").is_ok();
                full.push(if a.tier == Tier::Thorough { (full_all && k < 8) || all } else { k == rot % PER_SHAPE.max(1) });
                keep.push(if a.tier == Tier::Thorough { k < 96 || all } else { (k >= rot && k < rot + PER_SHAPE) || k == 0 });
            }
        }
    }
    // definitions outside the quick sample still get the transition cover (light run)
    let (specs, full, keep): (Vec<Spec>, Vec<bool>, Vec<bool>) = {
        let mut a1 = vec![];
        let mut a2 = vec![];
        let mut a3 = vec![];
        for (((sp, f), k), sh) in specs.into_iter().zip(full).zip(keep).zip(shapes.iter()) {
            if sh.is_some() {
                a1.push(sp);
                a2.push(f);
                a3.push(k);
            }
        }
        (a1, a2, a3)
    };
    rep.observe("distinct_graph_shapes", seen.len() as u64);
    rep.observe("accepted_definitions_in_family", seen.values().map(|v| *v as u64).sum());
    rep.bounds.insert("family".into(), format!("{:?}: the Layer-1 family F(k) + curated set, both code generators{}", a.tier, if a.tier == Tier::Quick { "; quick tier: the full input family for at most 12 definitions of every distinct graph shape (VERIF_SEED rotates which), the transition cover for every other definition" } else { "; thorough tier: the full input family for at most 96 definitions of every distinct graph shape, all 256 next bytes for the first 8 of them, the transition cover for every other definition (VG_CODE_ALL=1: everything for every definition)" }));
    rep.bounds.insert(
        "inputs".into(),
        format!(
            "per definition: access string of every graph state x next bytes ({}), each also followed by one more symbol; fast-loop runs of every length 0..={} with exit symbols; all strings of <= {} symbols over <= {} representatives; every prefix of those as a partial buffer",
            if full_all { "all 256" } else { "all 256 for the first definition of every graph shape, range ends +-1 and special bytes otherwise" },
            params(a.tier, false).loop_max,
            params(a.tier, false).len,
            params(a.tier, false).max_alpha
        ),
    );
    let outs: Vec<CodeOut> = specs
        .par_iter()
        .zip(full.par_iter())
        .zip(keep.par_iter())
        .map(|((s, f), k)| {
            let mut p = params(a.tier, *f);
            p.light = !*k;
            check(s, &p)
        })
        .collect();
    rep.observe("definitions_with_full_input_family", keep.iter().filter(|k| **k).count() as u64);
    rep.observe("definitions_with_transition_cover_only", keep.iter().filter(|k| !**k).count() as u64);
    let mut unsupported: BTreeMap<String, u64> = BTreeMap::new();
    for (spec, o) in specs.iter().zip(outs.iter()) {
        rep.count("programs", 1);
        if o.interpreted {
            rep.count("interpreted_definitions", 1);
            if o.full_bytes {
                rep.count("definitions_with_all_256_next_bytes", 1);
            }
        }
        if let Some(u) = &o.unsupported {
            *unsupported.entry(u.chars().take(90).collect()).or_insert(0) += 1;
        }
        rep.count("traces_validated_against_impl", o.runs);
        rep.count("interpreted_next_calls", o.next_calls);
        let r = rep.observed.entry("max_reads_per_100_bytes_examined".into()).or_insert(0);
        *r = (*r).max(o.max_read_ratio_x100);
        for f in &o.findings {
            if a.prop != "ALL" && !tag_property(f.tag).contains(&a.prop.as_str()) {
                rep.observe(&format!("other_property_tag:{}", f.tag), 1);
                continue;
            }
            rep.violations.push(Violation {
                key: format!("{}/{}", f.tag, spec.short()),
                tag: f.tag.into(),
                case: spec.short(),
                detail: format!("{} | input {}{}", f.detail, vcore::show(&f.input), if f.partial { " (partial buffer)" } else { "" }),
                replay: json!({"kind": "code", "spec": spec, "tag": f.tag, "source": spec.render("T", "")}),
            });
        }
        if rep.samples.len() < 5 && o.interpreted && o.runs > 3000 && rep.counts["programs"] % 53 == 7 {
            rep.samples.push(json!({"definition": spec.short(), "interpreted_runs_both_backends": o.runs, "all_256_next_bytes": o.full_bytes}));
        }
    }
    rep.observe("cpu_ms_lift", interp::T_LIFT.load(std::sync::atomic::Ordering::Relaxed) / 1000);
    rep.observe("cpu_ms_synparse", interp::T_PARSE.load(std::sync::atomic::Ordering::Relaxed) / 1000);
    rep.observe("cpu_ms_generate", T_GEN.load(std::sync::atomic::Ordering::Relaxed) / 1000);
    rep.observe("cpu_ms_parse_and_lower", T_COMPILE.load(std::sync::atomic::Ordering::Relaxed) / 1000);
    for (u, n) in unsupported.iter().take(6) {
        rep.notes.push(format!("not interpretable ({n} definitions): {u}"));
    }
    let interp = rep.counts.get("interpreted_definitions").copied().unwrap_or(0);
    rep.observe("not_interpretable_definitions", unsupported.values().sum());
    // states/transitions of the explored space: executions of the interpreted code
    rep.count("states", interp);
    rep.count("transitions", rep.counts.get("interpreted_next_calls").copied().unwrap_or(0));
    rep
}

/// replay: the one definition again, with all 256 next bytes
pub fn replay_one(spec: &Spec, tag: &str) -> Vec<Violation> {
    let o = check(spec, &params(Tier::Quick, true));
    o.findings
        .iter()
        .filter(|f| f.tag == tag)
        .map(|f| Violation { key: format!("{}/{}", f.tag, spec.short()), tag: f.tag.into(), case: spec.short(), detail: f.detail.clone(), replay: json!(null) })
        .collect()
}
