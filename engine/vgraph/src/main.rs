//! vgraph: Layer-1 explorers on the REAL pipeline (logos_codegen::generate with the capture hook).
mod cli;
mod codecheck;
mod interp;
mod common;
mod families;
mod fragments;
mod gen;
mod selfcheck;
mod tokenlevel;

use rayon::prelude::*;
use serde_json::json;
use std::collections::BTreeSet;
use vcore::enumerate::Tier;
use vcore::report::Report;
use vcore::spec::Spec;

pub struct Args {
    pub cmd: String,
    pub prop: String,
    pub tier: Tier,
    pub tier_name: String,
    pub out: String,
    pub seed: u64,
    pub file: Option<String>,
}

fn parse_args() -> Args {
    let a: Vec<String> = std::env::args().collect();
    let mut args = Args { cmd: a.get(1).cloned().unwrap_or_default(), prop: String::new(), tier: Tier::Quick, tier_name: "quick".into(), out: String::new(), seed: 0, file: None };
    let mut i = 2;
    while i < a.len() {
        match a[i].as_str() {
            "--prop" => { args.prop = a[i + 1].clone(); i += 1 }
            "--tier" => {
                args.tier_name = a[i + 1].clone();
                args.tier = if a[i + 1] == "thorough" { Tier::Thorough } else { Tier::Quick };
                i += 1
            }
            "--out" => { args.out = a[i + 1].clone(); i += 1 }
            "--seed" => { args.seed = a[i + 1].parse().unwrap_or(0); i += 1 }
            "--file" => { args.file = Some(a[i + 1].clone()); i += 1 }
            x => panic!("unknown argument {x}"),
        }
        i += 1;
    }
    args
}

pub fn run_specs(rep: &mut Report, prop: &str, specs: &[Spec], extra_tags: &[&str], unexpected_reject_is_violation: bool) {
    let outs: Vec<common::DefOut> = specs.par_iter().map(common::process).collect();
    let mut shapes = BTreeSet::new();
    for (spec, out) in specs.iter().zip(outs.iter()) {
        common::fold(rep, prop, spec, out, extra_tags);
        if let Some(s) = &out.shape {
            shapes.insert(s.clone());
        }
        if let (true, Some(msg)) = (unexpected_reject_is_violation, &out.unexpected_reject) {
            rep.violations.push(vcore::report::Violation {
                key: format!("UNEXPECTED-REJECT/{}", spec.short()),
                tag: "UNEXPECTED-REJECT".into(),
                case: spec.short(),
                detail: format!("the reference sees no reason to reject, the derive says: {msg}"),
                replay: json!({"kind": "layer1", "spec": spec, "tag": "UNEXPECTED-REJECT", "path_hex": "", "source": spec.render("T", "")}),
            });
        } else if let Some(msg) = &out.unexpected_reject {
            if rep.notes.len() < 5 {
                rep.notes.push(format!("rejected without a reference reason: {} :: {}", spec.short(), msg.lines().next().unwrap_or("")));
            }
        }
        if out.explored && rep.samples.len() < 6 && out.states > 8 && (rep.counts.get("explored").copied().unwrap_or(0) % 97 == 1) {
            rep.samples.push(json!({"definition": spec.short(), "product_states": out.states, "product_transitions": out.transitions, "shape": out.shape}));
        }
    }
    rep.observe("distinct_graph_shapes", shapes.len() as u64);
}

fn layer1(args: &Args) -> Report {
    let mut rep = Report::new(&args.prop, "vgraph layer1", &args.tier_name);
    let mut specs = vcore::enumerate::family(args.tier);
    for (_, s, heavy) in vcore::curated::curated() {
        if !heavy || args.tier == Tier::Thorough {
            specs.push(s.clone());
            if s.utf8 {
                specs.push(s.bytes_mode());
            }
        }
    }
    rep.bounds.insert("family".into(), format!("{:?}: F(k) enumeration + curated set, see DESIGN.md 2.4", args.tier));
    rep.bounds.insert("inputs".into(), "all inputs of every length (product automaton explored to a fixpoint)".into());
    run_specs(&mut rep, &args.prop, &specs, &[], false);
    rep
}

fn main() {
    let args = parse_args();
    let t0 = std::time::Instant::now();
    let mut rep = match args.cmd.as_str() {
        "layer1" => layer1(&args),
        "selfcheck" => families::selfcheck(&args),
        "c10" => families::c10(&args),
        "c11" => families::c11(&args),
        "c12" => families::c12(&args),
        "c06struct" => tokenlevel::c06struct(&args),
        "c16" => tokenlevel::c16(&args),
        "c17" => cli::c17(&args),
        "c19big" => tokenlevel::c19big(&args),
        "c16cli" => cli::c16cli(&args),
        "c18" => tokenlevel::c18(&args),
        "c08" => tokenlevel::c08(&args),
        "c19" => tokenlevel::c19(&args),
        "c19seq" => tokenlevel::c19seq(&args),
        "c13cb" => fragments::c13cb(&args),
        "code" => codecheck::code(&args),
        "replay" => families::replay(&args),
        "timing" => {
            families::timing(&args);
            return;
        }
        "curated" => {
            families::curated_status(&args);
            return;
        }
        "c16-fresh" => {
            tokenlevel::c16_fresh_child(&args);
            return;
        }
        "c19big-child" => {
            tokenlevel::c19big_child(&args);
            return;
        }
        "probe-emit" => {
            tokenlevel::probe_emit(&args);
            return;
        }
        "gen" => {
            gen::gen(&args);
            return;
        }
        "dump" => {
            families::dump(&args);
            return;
        }
        x => panic!("unknown command {x}"),
    };
    rep.counts.insert("wall_ms".into(), t0.elapsed().as_millis() as u64);
    if args.out.is_empty() {
        println!("{}", serde_json::to_string_pretty(&rep).unwrap());
    } else {
        rep.write(&args.out);
        eprintln!(
            "{} {}: programs={} explored={} states={} transitions={} violations={} ({} ms)",
            args.cmd,
            args.prop,
            rep.counts.get("programs").copied().unwrap_or(0),
            rep.counts.get("explored").copied().unwrap_or(0),
            rep.counts.get("states").copied().unwrap_or(0),
            rep.counts.get("transitions").copied().unwrap_or(0),
            rep.violations.len(),
            t0.elapsed().as_millis()
        );
    }
}
