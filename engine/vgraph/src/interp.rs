//! A small interpreter for the Rust subset that logos' code generators emit (both back ends), so
//! that the emitted code of EVERY enumerated definition - not only of the compiled sub-corpus - can
//! be executed on model traces: the token stream returned by the real `generate()` is parsed with
//! syn, lowered to a compact IR, and run against a transcription of the runtime's `LexerInternal`
//! (src/lexer.rs: read / end / end_to_boundary / offset / is_prefix / trivia / slice).
//!
//! Anything outside the subset (user callbacks, unknown methods ...) makes `compile` return
//! `Err(Unsupported)`: that is reported as "not interpretable", never as a verdict. Arithmetic is
//! checked the way a debug build checks it (overflow / index out of range = `Panic`).
use proc_macro2::{TokenStream, TokenTree};
use std::collections::HashMap;
use std::rc::Rc;

pub type Sym = u32;

#[derive(Default)]
pub struct Interner {
    map: HashMap<String, Sym>,
    names: Vec<String>,
}
impl Interner {
    pub fn get(&mut self, s: &str) -> Sym {
        if let Some(&i) = self.map.get(s) {
            return i;
        }
        let i = self.names.len() as Sym;
        self.names.push(s.to_string());
        self.map.insert(s.to_string(), i);
        i
    }
    pub fn name(&self, s: Sym) -> &str {
        &self.names[s as usize]
    }
    pub fn find(&self, s: &str) -> Option<Sym> {
        self.map.get(s).copied()
    }
}

#[derive(Clone, Copy, PartialEq, Eq, Debug)]
pub enum K {
    U8,
    Usize,
    Other,
    Unk,
}

#[derive(Clone, Debug, PartialEq)]
pub enum Val {
    Unit,
    Bool(bool),
    Int(i128, K),
    /// enum-like value: last path segment + fields (`_Option::Some(x)`, `T::V1`, `LogosState::State3`, `CallbackResult::Skip`)
    Ctor(Sym, Rc<Vec<Val>>),
    Arr(Rc<Vec<Val>>),
    Slice(usize, usize),
    Lex,
    Item(usize),
}

#[derive(Debug)]
pub struct Unsupported(pub String);

fn unsup<T>(what: impl Into<String>) -> Result<T, Unsupported> {
    Err(Unsupported(what.into()))
}

#[derive(Clone, Copy, PartialEq, Eq, Debug)]
pub enum Op {
    Add,
    Sub,
    Mul,
    And,
    Or,
    Shl,
    Shr,
    BitAnd,
    BitOr,
    Eq,
    Ne,
    Lt,
    Le,
    Gt,
    Ge,
    Not,
    Neg,
}

#[derive(Debug)]
pub enum Pat {
    Wild,
    Bind(Sym),
    /// path or tuple-struct pattern: last segment + sub-patterns
    Ctor(Sym, Vec<Pat>),
    Int(i128),
    Range(i128, i128),
    Or(Vec<Pat>),
    Unit,
}

#[derive(Debug)]
pub struct Block {
    items: Vec<(Sym, usize)>,
    stmts: Vec<Stmt>,
}

#[derive(Debug)]
pub enum Stmt {
    Let(Pat, Option<E>),
    Expr(E, bool /* has trailing semicolon */),
}

#[derive(Debug)]
pub enum E {
    Lit(Val),
    Var(Sym),
    /// multi-segment path used as a value: the last segment names a constructor / constant / fn
    Path(Sym),
    DefaultError,
    Call(Box<E>, Vec<E>),
    Read(usize /* chunk size */, bool /* array */, Box<E>),
    Method(Box<E>, Sym, Vec<E>),
    Bin(Op, Box<E>, Box<E>),
    Un(Op, Box<E>),
    Assign(Sym, Box<E>),
    AssignOp(Op, Sym, Box<E>),
    Index(Box<E>, Box<E>),
    Cast(Box<E>, K),
    If(Box<E>, Block, Option<Box<E>>),
    IfLet(Pat, Box<E>, Block, Option<Box<E>>),
    WhileLet(Pat, Box<E>, Block, Option<Sym>),
    While(Box<E>, Block, Option<Sym>),
    Loop(Block, Option<Sym>),
    Match(Box<E>, Vec<(Pat, Option<E>, E)>),
    Blk(Block, Option<Sym>),
    Return(Option<Box<E>>),
    Break(Option<Sym>, Option<Box<E>>),
    Continue(Option<Sym>),
    Array(Vec<E>),
    Matches(Box<E>, Pat, Option<Box<E>>),
    Unreachable,
}

pub struct FnDef {
    pub name: Sym,
    params: Vec<Sym>,
    body: Block,
}

pub enum ItemDef {
    Fn(FnDef),
    Const(E),
}

pub struct Program {
    pub syms: Interner,
    pub items: Vec<ItemDef>,
    globals: HashMap<Sym, usize>,
    consts: std::cell::RefCell<HashMap<usize, Val>>,
    /// body of `fn lex`
    entry: Block,
    entry_param: Sym,
    s: WellKnown,
}

#[derive(Default, Clone, Copy)]
struct WellKnown {
    some: Sym,
    none: Sym,
    end: Sym,
    end_to_boundary: Sym,
    offset: Sym,
    is_prefix: Sym,
    trivia: Sym,
    slice: Sym,
    max: Sym,
    min: Sym,
}

struct MacroDef {
    params: Vec<String>,
    body: TokenStream,
}

struct Cx {
    syms: Interner,
    items: Vec<ItemDef>,
    macros: HashMap<String, MacroDef>,
    /// large constant arrays lifted out of the token stream before syn sees it (`__arr!(k)`)
    arrays: Vec<Val>,
}

/// One element of a constant table: `123u8`, `b'x'`, `Ident`, `A::B`, `A::B(elem)`.
fn table_elem(toks: &[TokenTree], syms: &mut Interner) -> Option<Val> {
    match toks {
        [TokenTree::Literal(l)] => {
            let lit: syn::Lit = syn::parse_str(&l.to_string()).ok()?;
            match lit {
                syn::Lit::Int(i) => Some(Val::Int(i.base10_parse::<i128>().ok()?, int_kind(i.suffix()))),
                syn::Lit::Byte(b) => Some(Val::Int(b.value() as i128, K::U8)),
                _ => None,
            }
        }
        _ => {
            // path segments separated by `::`, optionally one parenthesised argument
            let mut last: Option<String> = None;
            let mut i = 0;
            while i < toks.len() {
                match &toks[i] {
                    TokenTree::Ident(id) => {
                        last = Some(id.to_string());
                        i += 1;
                    }
                    TokenTree::Punct(p) if p.as_char() == ':' => i += 1,
                    TokenTree::Group(g) if g.delimiter() == proc_macro2::Delimiter::Parenthesis && i + 1 == toks.len() => {
                        let inner: Vec<TokenTree> = g.stream().into_iter().collect();
                        let arg = table_elem(&inner, syms)?;
                        return Some(Val::Ctor(syms.get(&last?), Rc::new(vec![arg])));
                    }
                    _ => return None,
                }
            }
            Some(Val::Ctor(syms.get(&last?), Rc::new(vec![])))
        }
    }
}

/// Replace every bracketed list of >= 64 simple elements by `__arr!(k)`; the values go to `arrays`.
fn lift_tables(ts: TokenStream, syms: &mut Interner, arrays: &mut Vec<Val>) -> TokenStream {
    let mut out = TokenStream::new();
    for t in ts {
        match t {
            TokenTree::Group(g) => {
                if g.delimiter() == proc_macro2::Delimiter::Bracket {
                    let toks: Vec<TokenTree> = g.stream().into_iter().collect();
                    let mut elems: Vec<Val> = vec![];
                    let mut ok = true;
                    for chunk in toks.split(|t| matches!(t, TokenTree::Punct(p) if p.as_char() == ',')) {
                        if chunk.is_empty() {
                            continue;
                        }
                        match table_elem(chunk, syms) {
                            Some(v) => elems.push(v),
                            None => {
                                ok = false;
                                break;
                            }
                        }
                    }
                    if ok && elems.len() >= 64 {
                        arrays.push(Val::Arr(Rc::new(elems)));
                        let k = proc_macro2::Literal::usize_unsuffixed(arrays.len() - 1);
                        out.extend(quote::quote!(__arr!(#k)));
                        continue;
                    }
                }
                let mut ng = proc_macro2::Group::new(g.delimiter(), lift_tables(g.stream(), syms, arrays));
                ng.set_span(g.span());
                out.extend([TokenTree::Group(ng)]);
            }
            other => out.extend([other]),
        }
    }
    out
}

fn last_seg(p: &syn::Path) -> String {
    p.segments.last().map(|s| s.ident.to_string()).unwrap_or_default()
}

fn int_kind(suffix: &str) -> K {
    match suffix {
        "u8" => K::U8,
        "usize" => K::Usize,
        "" => K::Unk,
        _ => K::Other,
    }
}

impl Cx {
    fn sym(&mut self, s: &str) -> Sym {
        self.syms.get(s)
    }

    fn parse_macro_rules(&mut self, m: &syn::ItemMacro) -> Result<(), Unsupported> {
        let Some(name) = &m.ident else { return unsup("macro item without a name") };
        if !m.mac.path.is_ident("macro_rules") {
            return unsup(format!("item macro {}", last_seg(&m.mac.path)));
        }
        let toks: Vec<TokenTree> = m.mac.tokens.clone().into_iter().collect();
        // ( matcher ) => { transcriber } [;]
        let (Some(TokenTree::Group(matcher)), Some(TokenTree::Group(body))) = (toks.first(), toks.get(3)) else { return unsup("macro_rules shape") };
        if toks.len() > 5 {
            return unsup("macro_rules with several arms");
        }
        let mt: Vec<TokenTree> = matcher.stream().into_iter().collect();
        let mut params = vec![];
        let mut i = 0;
        while i < mt.len() {
            match (&mt[i], mt.get(i + 1)) {
                (TokenTree::Punct(p), Some(TokenTree::Ident(id))) if p.as_char() == '$' => {
                    params.push(id.to_string());
                    i += 4; // $ name : kind
                }
                (TokenTree::Punct(p), _) if p.as_char() == ',' => i += 1,
                _ => return unsup("macro matcher shape"),
            }
        }
        self.macros.insert(name.to_string(), MacroDef { params, body: body.stream() });
        Ok(())
    }

    fn expand(&self, name: &str, args: TokenStream) -> Result<TokenStream, Unsupported> {
        let Some(m) = self.macros.get(name) else { return unsup(format!("macro {name}!")) };
        let mut actual: Vec<TokenStream> = vec![TokenStream::new()];
        for t in args {
            match &t {
                TokenTree::Punct(p) if p.as_char() == ',' => actual.push(TokenStream::new()),
                _ => actual.last_mut().unwrap().extend([t]),
            }
        }
        if actual.len() != m.params.len() {
            return unsup(format!("macro {name}! called with {} arguments", actual.len()));
        }
        fn subst(ts: TokenStream, params: &[String], actual: &[TokenStream]) -> TokenStream {
            let v: Vec<TokenTree> = ts.into_iter().collect();
            let mut out = TokenStream::new();
            let mut i = 0;
            while i < v.len() {
                match (&v[i], v.get(i + 1)) {
                    (TokenTree::Punct(p), Some(TokenTree::Ident(id))) if p.as_char() == '$' => {
                        if let Some(k) = params.iter().position(|x| id == x) {
                            out.extend(actual[k].clone());
                            i += 2;
                            continue;
                        }
                        out.extend([v[i].clone()]);
                    }
                    (TokenTree::Group(g), _) => {
                        let mut ng = proc_macro2::Group::new(g.delimiter(), subst(g.stream(), params, actual));
                        ng.set_span(g.span());
                        out.extend([TokenTree::Group(ng)]);
                    }
                    _ => out.extend([v[i].clone()]),
                }
                i += 1;
            }
            out
        }
        Ok(subst(m.body.clone(), &m.params, &actual))
    }

    fn mac_expr(&mut self, mac: &syn::Macro) -> Result<E, Unsupported> {
        let name = last_seg(&mac.path);
        match name.as_str() {
            "matches" => {
                // expr , pat [if guard]
                struct M(syn::Expr, syn::Pat, Option<syn::Expr>);
                impl syn::parse::Parse for M {
                    fn parse(input: syn::parse::ParseStream) -> syn::Result<Self> {
                        let e: syn::Expr = input.parse()?;
                        input.parse::<syn::Token![,]>()?;
                        let p = syn::Pat::parse_multi_with_leading_vert(input)?;
                        let g = if input.peek(syn::Token![if]) {
                            input.parse::<syn::Token![if]>()?;
                            Some(input.parse()?)
                        } else {
                            None
                        };
                        let _ = input.parse::<Option<syn::Token![,]>>();
                        Ok(M(e, p, g))
                    }
                }
                let M(e, p, g) = syn::parse2(mac.tokens.clone()).map_err(|e| Unsupported(format!("matches!: {e}")))?;
                let g = match g {
                    Some(g) => Some(Box::new(self.expr(&g)?)),
                    None => None,
                };
                Ok(E::Matches(Box::new(self.expr(&e)?), self.pat(&p)?, g))
            }
            "unreachable" | "panic" | "unimplemented" | "todo" => Ok(E::Unreachable),
            "__arr" => {
                let k: usize = mac.tokens.to_string().trim().parse().map_err(|_| Unsupported("__arr index".into()))?;
                Ok(E::Lit(self.arrays[k].clone()))
            }
            _ => {
                let ts = self.expand(&name, mac.tokens.clone())?;
                let e: syn::Expr = syn::parse2(ts).map_err(|e| Unsupported(format!("expansion of {name}! is not an expression: {e}")))?;
                self.expr(&e)
            }
        }
    }

    fn block(&mut self, b: &syn::Block) -> Result<Block, Unsupported> {
        let mut out = Block { items: vec![], stmts: vec![] };
        // items first (they are visible in the whole block); macros must be known before use
        for st in &b.stmts {
            if let syn::Stmt::Item(it) = st {
                match it {
                    syn::Item::Macro(m) => self.parse_macro_rules(m)?,
                    syn::Item::Use(_) | syn::Item::Enum(_) | syn::Item::Struct(_) | syn::Item::Type(_) => {}
                    syn::Item::Fn(f) => {
                        let d = self.func(f)?;
                        let name = d.name;
                        self.items.push(ItemDef::Fn(d));
                        out.items.push((name, self.items.len() - 1));
                    }
                    syn::Item::Const(c) => {
                        let e = self.expr(&c.expr)?;
                        let name = self.sym(&c.ident.to_string());
                        self.items.push(ItemDef::Const(e));
                        out.items.push((name, self.items.len() - 1));
                    }
                    syn::Item::Static(c) => {
                        let e = self.expr(&c.expr)?;
                        let name = self.sym(&c.ident.to_string());
                        self.items.push(ItemDef::Const(e));
                        out.items.push((name, self.items.len() - 1));
                    }
                    other => return unsup(format!("item {}", quote::ToTokens::to_token_stream(other).to_string().chars().take(60).collect::<String>())),
                }
            }
        }
        for st in &b.stmts {
            match st {
                syn::Stmt::Item(_) => {}
                syn::Stmt::Local(l) => {
                    let init = match &l.init {
                        Some(i) => {
                            if i.diverge.is_some() {
                                return unsup("let-else");
                            }
                            Some(self.expr(&i.expr)?)
                        }
                        None => None,
                    };
                    out.stmts.push(Stmt::Let(self.pat(&l.pat)?, init));
                }
                syn::Stmt::Expr(e, semi) => {
                    let ex = self.expr(e)?;
                    out.stmts.push(Stmt::Expr(ex, semi.is_some()));
                }
                syn::Stmt::Macro(m) => {
                    let ex = self.mac_expr(&m.mac)?;
                    out.stmts.push(Stmt::Expr(ex, m.semi_token.is_some()));
                }
            }
        }
        Ok(out)
    }

    fn func(&mut self, f: &syn::ItemFn) -> Result<FnDef, Unsupported> {
        let mut params = vec![];
        for a in &f.sig.inputs {
            match a {
                syn::FnArg::Typed(t) => match &*t.pat {
                    syn::Pat::Ident(i) => params.push(self.sym(&i.ident.to_string())),
                    _ => return unsup("fn parameter pattern"),
                },
                _ => return unsup("self parameter"),
            }
        }
        let name = self.sym(&f.sig.ident.to_string());
        Ok(FnDef { name, params, body: self.block(&f.block)? })
    }

    fn pat(&mut self, p: &syn::Pat) -> Result<Pat, Unsupported> {
        Ok(match p {
            syn::Pat::Wild(_) => Pat::Wild,
            syn::Pat::Ident(i) => {
                if i.subpat.is_some() || i.by_ref.is_some() {
                    return unsup("binding pattern with @ / ref");
                }
                Pat::Bind(self.sym(&i.ident.to_string()))
            }
            syn::Pat::Type(t) => self.pat(&t.pat)?,
            syn::Pat::Path(pp) => Pat::Ctor(self.sym(&last_seg(&pp.path)), vec![]),
            syn::Pat::TupleStruct(ts) => {
                let mut subs = vec![];
                for e in &ts.elems {
                    subs.push(self.pat(e)?);
                }
                Pat::Ctor(self.sym(&last_seg(&ts.path)), subs)
            }
            syn::Pat::Tuple(t) if t.elems.is_empty() => Pat::Unit,
            syn::Pat::Paren(pp) => self.pat(&pp.pat)?,
            syn::Pat::Lit(l) => Pat::Int(self.lit_int(&l.lit)?.0),
            syn::Pat::Range(r) => {
                let lo = match &r.start {
                    Some(e) => self.const_int(e)?,
                    None => return unsup("open range pattern"),
                };
                let hi = match &r.end {
                    Some(e) => self.const_int(e)?,
                    None => return unsup("open range pattern"),
                };
                match r.limits {
                    syn::RangeLimits::Closed(_) => Pat::Range(lo, hi),
                    syn::RangeLimits::HalfOpen(_) => Pat::Range(lo, hi - 1),
                }
            }
            syn::Pat::Or(o) => {
                let mut v = vec![];
                for c in &o.cases {
                    v.push(self.pat(c)?);
                }
                Pat::Or(v)
            }
            other => return unsup(format!("pattern {}", quote::ToTokens::to_token_stream(other))),
        })
    }

    fn lit_int(&mut self, l: &syn::Lit) -> Result<(i128, K), Unsupported> {
        match l {
            syn::Lit::Int(i) => Ok((i.base10_parse::<i128>().map_err(|e| Unsupported(format!("int literal: {e}")))?, int_kind(i.suffix()))),
            syn::Lit::Byte(b) => Ok((b.value() as i128, K::U8)),
            _ => unsup("literal kind"),
        }
    }

    fn const_int(&mut self, e: &syn::Expr) -> Result<i128, Unsupported> {
        match e {
            syn::Expr::Lit(l) => Ok(self.lit_int(&l.lit)?.0),
            _ => unsup("non-literal range bound"),
        }
    }

    fn cast_kind(&mut self, t: &syn::Type) -> Result<K, Unsupported> {
        match t {
            syn::Type::Path(p) => Ok(int_kind(&last_seg(&p.path))),
            _ => unsup("cast target"),
        }
    }

    fn opt_label(&mut self, l: &Option<syn::Label>) -> Option<Sym> {
        l.as_ref().map(|l| self.sym(&l.name.ident.to_string()))
    }

    fn opt_lifetime(&mut self, l: &Option<syn::Lifetime>) -> Option<Sym> {
        l.as_ref().map(|l| self.sym(&l.ident.to_string()))
    }

    fn binop(&mut self, op: &syn::BinOp) -> Result<(Op, bool), Unsupported> {
        use syn::BinOp::*;
        Ok(match op {
            Add(_) => (Op::Add, false),
            Sub(_) => (Op::Sub, false),
            Mul(_) => (Op::Mul, false),
            And(_) => (Op::And, false),
            Or(_) => (Op::Or, false),
            Shl(_) => (Op::Shl, false),
            Shr(_) => (Op::Shr, false),
            BitAnd(_) => (Op::BitAnd, false),
            BitOr(_) => (Op::BitOr, false),
            Eq(_) => (Op::Eq, false),
            Ne(_) => (Op::Ne, false),
            Lt(_) => (Op::Lt, false),
            Le(_) => (Op::Le, false),
            Gt(_) => (Op::Gt, false),
            Ge(_) => (Op::Ge, false),
            AddAssign(_) => (Op::Add, true),
            SubAssign(_) => (Op::Sub, true),
            MulAssign(_) => (Op::Mul, true),
            BitAndAssign(_) => (Op::BitAnd, true),
            BitOrAssign(_) => (Op::BitOr, true),
            ShlAssign(_) => (Op::Shl, true),
            ShrAssign(_) => (Op::Shr, true),
            _ => return unsup("binary operator"),
        })
    }

    fn place(&mut self, e: &syn::Expr) -> Result<Sym, Unsupported> {
        match e {
            syn::Expr::Path(p) if p.path.segments.len() == 1 && p.qself.is_none() => Ok(self.sym(&last_seg(&p.path))),
            syn::Expr::Paren(p) => self.place(&p.expr),
            _ => unsup("assignment to something that is not a local variable"),
        }
    }

    fn else_branch(&mut self, e: &Option<(syn::token::Else, Box<syn::Expr>)>) -> Result<Option<Box<E>>, Unsupported> {
        Ok(match e {
            Some((_, e)) => Some(Box::new(self.expr(e)?)),
            None => None,
        })
    }

    fn expr(&mut self, e: &syn::Expr) -> Result<E, Unsupported> {
        Ok(match e {
            syn::Expr::Lit(l) => match &l.lit {
                syn::Lit::Bool(b) => E::Lit(Val::Bool(b.value)),
                other => {
                    let (v, k) = self.lit_int(other)?;
                    E::Lit(Val::Int(v, k))
                }
            },
            syn::Expr::Paren(p) => self.expr(&p.expr)?,
            syn::Expr::Group(g) => self.expr(&g.expr)?,
            syn::Expr::Tuple(t) if t.elems.is_empty() => E::Lit(Val::Unit),
            syn::Expr::Path(p) => {
                if p.qself.is_some() {
                    return unsup("qualified path used as a value");
                }
                if p.path.segments.len() == 1 {
                    E::Var(self.sym(&last_seg(&p.path)))
                } else {
                    E::Path(self.sym(&last_seg(&p.path)))
                }
            }
            syn::Expr::Call(c) => {
                if let syn::Expr::Path(p) = &*c.func {
                    if p.qself.is_some() {
                        if last_seg(&p.path) == "default" && c.args.is_empty() {
                            return Ok(E::DefaultError);
                        }
                        return unsup("call through a qualified path");
                    }
                }
                let f = self.expr(&c.func)?;
                let mut args = vec![];
                for a in &c.args {
                    args.push(self.expr(a)?);
                }
                E::Call(Box::new(f), args)
            }
            syn::Expr::MethodCall(m) => {
                let name = m.method.to_string();
                if name == "read" {
                    let Some(tf) = &m.turbofish else { return unsup("read without a chunk type") };
                    let Some(syn::GenericArgument::Type(t)) = tf.args.first() else { return unsup("read turbofish") };
                    let (n, arr) = match t {
                        syn::Type::Path(p) if last_seg(&p.path) == "u8" => (1, false),
                        syn::Type::Reference(r) => match &*r.elem {
                            syn::Type::Array(a) => (self.const_int(&a.len)? as usize, true),
                            _ => return unsup("read chunk type"),
                        },
                        _ => return unsup("read chunk type"),
                    };
                    if m.args.len() != 1 {
                        return unsup("read arity");
                    }
                    let recv = self.expr(&m.receiver)?;
                    if !matches!(recv, E::Var(_)) {
                        return unsup("read receiver");
                    }
                    return Ok(E::Read(n, arr, Box::new(self.expr(&m.args[0])?)));
                }
                if m.turbofish.is_some() {
                    return unsup(format!("method {name} with turbofish"));
                }
                let recv = self.expr(&m.receiver)?;
                let mut args = vec![];
                for a in &m.args {
                    args.push(self.expr(a)?);
                }
                E::Method(Box::new(recv), self.sym(&name), args)
            }
            syn::Expr::Binary(b) => {
                let (op, assign) = self.binop(&b.op)?;
                if assign {
                    let p = self.place(&b.left)?;
                    E::AssignOp(op, p, Box::new(self.expr(&b.right)?))
                } else {
                    E::Bin(op, Box::new(self.expr(&b.left)?), Box::new(self.expr(&b.right)?))
                }
            }
            syn::Expr::Unary(u) => match u.op {
                syn::UnOp::Not(_) => E::Un(Op::Not, Box::new(self.expr(&u.expr)?)),
                syn::UnOp::Neg(_) => E::Un(Op::Neg, Box::new(self.expr(&u.expr)?)),
                _ => return unsup("unary operator"),
            },
            syn::Expr::Assign(a) => {
                let p = self.place(&a.left)?;
                E::Assign(p, Box::new(self.expr(&a.right)?))
            }
            syn::Expr::Index(i) => E::Index(Box::new(self.expr(&i.expr)?), Box::new(self.expr(&i.index)?)),
            syn::Expr::Cast(c) => {
                let k = self.cast_kind(&c.ty)?;
                E::Cast(Box::new(self.expr(&c.expr)?), k)
            }
            syn::Expr::If(i) => {
                let then = self.block(&i.then_branch)?;
                let els = self.else_branch(&i.else_branch)?;
                match &*i.cond {
                    syn::Expr::Let(l) => E::IfLet(self.pat(&l.pat)?, Box::new(self.expr(&l.expr)?), then, els),
                    c => E::If(Box::new(self.expr(c)?), then, els),
                }
            }
            syn::Expr::While(w) => {
                let label = self.opt_label(&w.label);
                let body = self.block(&w.body)?;
                match &*w.cond {
                    syn::Expr::Let(l) => E::WhileLet(self.pat(&l.pat)?, Box::new(self.expr(&l.expr)?), body, label),
                    c => E::While(Box::new(self.expr(c)?), body, label),
                }
            }
            syn::Expr::Loop(l) => {
                let label = self.opt_label(&l.label);
                E::Loop(self.block(&l.body)?, label)
            }
            syn::Expr::Match(m) => {
                let scrut = self.expr(&m.expr)?;
                let mut arms = vec![];
                for a in &m.arms {
                    let g = match &a.guard {
                        Some((_, g)) => Some(self.expr(g)?),
                        None => None,
                    };
                    arms.push((self.pat(&a.pat)?, g, self.expr(&a.body)?));
                }
                E::Match(Box::new(scrut), arms)
            }
            syn::Expr::Block(b) => {
                let label = self.opt_label(&b.label);
                E::Blk(self.block(&b.block)?, label)
            }
            syn::Expr::Return(r) => E::Return(match &r.expr {
                Some(e) => Some(Box::new(self.expr(e)?)),
                None => None,
            }),
            syn::Expr::Break(b) => {
                let l = self.opt_lifetime(&b.label);
                E::Break(l, match &b.expr {
                    Some(e) => Some(Box::new(self.expr(e)?)),
                    None => None,
                })
            }
            syn::Expr::Continue(c) => E::Continue(self.opt_lifetime(&c.label)),
            syn::Expr::Array(a) => {
                let mut v = vec![];
                for x in &a.elems {
                    v.push(self.expr(x)?);
                }
                E::Array(v)
            }
            syn::Expr::Macro(m) => self.mac_expr(&m.mac)?,
            other => return unsup(format!("expression {}", quote::ToTokens::to_token_stream(other).to_string().chars().take(80).collect::<String>())),
        })
    }
}

pub static T_LIFT: std::sync::atomic::AtomicU64 = std::sync::atomic::AtomicU64::new(0);
pub static T_PARSE: std::sync::atomic::AtomicU64 = std::sync::atomic::AtomicU64::new(0);

/// Parse generate()'s output and lower `fn lex` of the `impl Logos`.
pub fn compile(tokens: TokenStream) -> Result<Program, Unsupported> {
    let mut syms = Interner::default();
    let mut arrays = vec![];
    let t0 = std::time::Instant::now();
    let tokens = lift_tables(tokens, &mut syms, &mut arrays);
    T_LIFT.fetch_add(t0.elapsed().as_micros() as u64, std::sync::atomic::Ordering::Relaxed);
    let t0 = std::time::Instant::now();
    let file: syn::File = syn::parse2(tokens).map_err(|e| Unsupported(format!("output does not parse as a file: {e}")))?;
    T_PARSE.fetch_add(t0.elapsed().as_micros() as u64, std::sync::atomic::Ordering::Relaxed);
    let mut lex_fn: Option<&syn::ImplItemFn> = None;
    for it in &file.items {
        if let syn::Item::Impl(im) = it {
            if im.trait_.as_ref().map_or(false, |(_, p, _)| last_seg(p) == "Logos") {
                for ii in &im.items {
                    if let syn::ImplItem::Fn(f) = ii {
                        if f.sig.ident == "lex" {
                            lex_fn = Some(f);
                        }
                    }
                }
            }
        }
    }
    let Some(f) = lex_fn else { return unsup("no `fn lex` in an `impl Logos`") };
    let mut cx = Cx { syms, items: vec![], macros: HashMap::new(), arrays };
    let entry_param = match f.sig.inputs.first() {
        Some(syn::FnArg::Typed(t)) => match &*t.pat {
            syn::Pat::Ident(i) => cx.sym(&i.ident.to_string()),
            _ => return unsup("lex parameter"),
        },
        _ => return unsup("lex parameter"),
    };
    let entry = cx.block(&f.block)?;
    let globals: HashMap<Sym, usize> = entry.items.iter().copied().collect();
    let s = WellKnown {
        some: cx.sym("Some"),
        none: cx.sym("None"),
        end: cx.sym("end"),
        end_to_boundary: cx.sym("end_to_boundary"),
        offset: cx.sym("offset"),
        is_prefix: cx.sym("is_prefix"),
        trivia: cx.sym("trivia"),
        slice: cx.sym("slice"),
        max: cx.sym("max"),
        min: cx.sym("min"),
    };
    Ok(Program { syms: cx.syms, items: cx.items, globals, consts: Default::default(), entry, entry_param, s })
}

// ------------------------------------------------------------------------------------ runtime

#[derive(Debug, Clone, Copy, PartialEq, Eq)]
pub enum Event {
    Next(usize),
    Restart(usize),
    Read(usize, usize),
}

/// transcription of `logos::Lexer` (the fields the generated code can touch)
pub struct LexModel<'a> {
    pub src: &'a [u8],
    pub is_str: bool,
    pub is_prefix: bool,
    pub token_start: usize,
    pub token_end: usize,
    pub events: Vec<Event>,
    pub trace: bool,
}

impl<'a> LexModel<'a> {
    fn find_boundary(&self, mut i: usize) -> usize {
        if !self.is_str {
            return i;
        }
        // src/source.rs: str::find_boundary - advance while the byte is a continuation byte
        while i < self.src.len() && (self.src[i] as i8) < -0x40 {
            i += 1;
        }
        i
    }
}

pub enum Stop {
    Panic(String),
    Budget,
    Unsupported(String),
}

enum Flow {
    Return(Val),
    Tail(usize, Vec<Val>),
    Break(Option<Sym>, Val),
    Continue(Option<Sym>),
    Stop(Stop),
}

type R = Result<Val, Flow>;

fn panic<T>(m: impl Into<String>) -> Result<T, Flow> {
    Err(Flow::Stop(Stop::Panic(m.into())))
}
fn runtime_unsup<T>(m: impl Into<String>) -> Result<T, Flow> {
    Err(Flow::Stop(Stop::Unsupported(m.into())))
}

pub struct Machine<'p, 'a> {
    p: &'p Program,
    pub lex: LexModel<'a>,
    env: Vec<(Sym, Val)>,
    base: usize,
    pub budget: u64,
    /// the `context` (leaf) seen by the last `_get_action` call that was given Some(leaf)
    pub last_leaf: Option<Sym>,
    get_action: Option<Sym>,
}

fn range_check(v: i128, k: K, what: &str) -> Result<Val, Flow> {
    let ok = match k {
        K::U8 => (0..=255).contains(&v),
        K::Usize => (0..=u64::MAX as i128).contains(&v),
        _ => (i64::MIN as i128..=u64::MAX as i128).contains(&v),
    };
    if ok {
        Ok(Val::Int(v, k))
    } else {
        panic(format!("arithmetic overflow: {what} gives {v} as {k:?}"))
    }
}

impl<'p, 'a> Machine<'p, 'a> {
    pub fn new(p: &'p Program, lex: LexModel<'a>) -> Self {
        Machine { p, lex, env: Vec::with_capacity(32), base: 0, budget: 0, last_leaf: None, get_action: p.syms.find("_get_action") }
    }

    fn lookup(&self, s: Sym) -> Option<Val> {
        for (k, v) in self.env[self.base..].iter().rev() {
            if *k == s {
                return Some(v.clone());
            }
        }
        self.p.globals.get(&s).map(|i| Val::Item(*i))
    }

    fn set(&mut self, s: Sym, v: Val) -> Result<(), Flow> {
        let base = self.base;
        for (k, slot) in self.env[base..].iter_mut().rev() {
            if *k == s {
                *slot = v;
                return Ok(());
            }
        }
        runtime_unsup(format!("assignment to unknown variable {}", self.p.syms.name(s)))
    }

    fn bind(&mut self, p: &Pat, v: &Val) -> bool {
        match (p, v) {
            (Pat::Wild, _) => true,
            (Pat::Bind(s), _) => {
                // an identifier pattern naming a known unit constructor value is a constant pattern;
                // the generated code never shadows those, a plain binding is what it means
                self.env.push((*s, v.clone()));
                true
            }
            (Pat::Ctor(c, subs), Val::Ctor(vc, fields)) => {
                if c != vc || subs.len() != fields.len() {
                    return false;
                }
                for (sp, f) in subs.iter().zip(fields.iter()) {
                    if !self.bind(sp, f) {
                        return false;
                    }
                }
                true
            }
            (Pat::Int(i), Val::Int(v, _)) => i == v,
            (Pat::Range(lo, hi), Val::Int(v, _)) => lo <= v && v <= hi,
            (Pat::Or(ps), _) => ps.iter().any(|p| self.bind(p, v)),
            (Pat::Unit, Val::Unit) => true,
            _ => false,
        }
    }

    fn const_val(&mut self, id: usize) -> R {
        if let Some(v) = self.p.consts.borrow().get(&id) {
            return Ok(v.clone());
        }
        let ItemDef::Const(e) = &self.p.items[id] else { return runtime_unsup("function used as a value") };
        // constants are evaluated in an empty frame
        let (b, n) = (self.base, self.env.len());
        self.base = n;
        let v = self.eval(e);
        self.env.truncate(n);
        self.base = b;
        let v = v?;
        self.p.consts.borrow_mut().insert(id, v.clone());
        Ok(v)
    }

    fn call_fn(&mut self, mut id: usize, mut args: Vec<Val>) -> R {
        loop {
            let ItemDef::Fn(f) = &self.p.items[id] else { return runtime_unsup("call of a constant") };
            if f.params.len() != args.len() {
                return runtime_unsup("arity mismatch in a call");
            }
            if Some(f.name) == self.get_action {
                if let Some(Val::Ctor(c, fields)) = args.get(2) {
                    self.last_leaf = if *c == self.p.s.some { fields.first().and_then(|v| if let Val::Ctor(l, _) = v { Some(*l) } else { None }) } else { None };
                }
            }
            let (b, n) = (self.base, self.env.len());
            self.base = n;
            for (p, a) in f.params.iter().zip(args.drain(..)) {
                self.env.push((*p, a));
            }
            let r = self.block(&f.body);
            self.env.truncate(n);
            self.base = b;
            match r {
                Ok(v) | Err(Flow::Return(v)) => return Ok(v),
                Err(Flow::Tail(nid, nargs)) => {
                    id = nid;
                    args = nargs;
                }
                Err(Flow::Break(..)) | Err(Flow::Continue(_)) => return runtime_unsup("break/continue across a function"),
                Err(f @ Flow::Stop(_)) => return Err(f),
            }
        }
    }

    fn block(&mut self, b: &Block) -> R {
        let n = self.env.len();
        for (s, id) in &b.items {
            self.env.push((*s, Val::Item(*id)));
        }
        let mut last = Val::Unit;
        let mut res = Ok(());
        for st in &b.stmts {
            if self.budget == 0 {
                res = Err(Flow::Stop(Stop::Budget));
                break;
            }
            self.budget -= 1;
            match st {
                Stmt::Let(p, init) => {
                    let v = match init {
                        Some(e) => match self.eval(e) {
                            Ok(v) => v,
                            Err(f) => {
                                res = Err(f);
                                break;
                            }
                        },
                        None => Val::Unit,
                    };
                    if !self.bind(p, &v) {
                        res = runtime_unsup("refutable let pattern did not match");
                        break;
                    }
                    last = Val::Unit;
                }
                Stmt::Expr(e, semi) => match self.eval(e) {
                    Ok(v) => last = if *semi { Val::Unit } else { v },
                    Err(f) => {
                        res = Err(f);
                        break;
                    }
                },
            }
        }
        self.env.truncate(n);
        res.map(|_| last)
    }

    fn int(&self, v: Val, what: &str) -> Result<(i128, K), Flow> {
        match v {
            Val::Int(i, k) => Ok((i, k)),
            other => runtime_unsup(format!("{what}: expected an integer, got {other:?}")),
        }
    }

    fn binary(&mut self, op: Op, l: Val, r: Val) -> R {
        if let (Val::Bool(a), Val::Bool(b)) = (&l, &r) {
            return Ok(Val::Bool(match op {
                Op::Eq => a == b,
                Op::Ne => a != b,
                Op::BitAnd => *a & *b,
                Op::BitOr => *a | *b,
                _ => return runtime_unsup("boolean operator"),
            }));
        }
        if let (Val::Ctor(..), Val::Ctor(..)) = (&l, &r) {
            return match op {
                Op::Eq => Ok(Val::Bool(l == r)),
                Op::Ne => Ok(Val::Bool(l != r)),
                _ => runtime_unsup("operator on enum values"),
            };
        }
        let (a, ka) = self.int(l, "left operand")?;
        let (b, kb) = self.int(r, "right operand")?;
        let k = if ka == K::Unk { kb } else { ka };
        Ok(match op {
            Op::Add => range_check(a + b, k, "addition")?,
            Op::Sub => range_check(a - b, k, "subtraction")?,
            Op::Mul => range_check(a * b, k, "multiplication")?,
            Op::BitAnd => Val::Int(a & b, k),
            Op::BitOr => Val::Int(a | b, k),
            Op::Shl => {
                let bits = match ka { K::U8 => 8, _ => 64 };
                if b < 0 || b >= bits {
                    return panic("shift amount out of range");
                }
                let m = if ka == K::U8 { 0xff } else { u64::MAX as i128 };
                Val::Int((a << b) & m, ka)
            }
            Op::Shr => {
                if b < 0 || b >= 64 {
                    return panic("shift amount out of range");
                }
                Val::Int(a >> b, ka)
            }
            Op::Eq => Val::Bool(a == b),
            Op::Ne => Val::Bool(a != b),
            Op::Lt => Val::Bool(a < b),
            Op::Le => Val::Bool(a <= b),
            Op::Gt => Val::Bool(a > b),
            Op::Ge => Val::Bool(a >= b),
            _ => return runtime_unsup("operator"),
        })
    }

    fn truthy(&self, v: Val) -> Result<bool, Flow> {
        match v {
            Val::Bool(b) => Ok(b),
            other => runtime_unsup(format!("condition is not a bool: {other:?}")),
        }
    }

    fn loop_ctl(&self, f: Flow, label: &Option<Sym>) -> Result<Option<Val>, Flow> {
        // Ok(Some(v)) = the loop is left with v, Ok(None) = next iteration
        match f {
            Flow::Break(l, v) if l.is_none() || l == *label => Ok(Some(v)),
            Flow::Continue(l) if l.is_none() || l == *label => Ok(None),
            other => Err(other),
        }
    }

    fn eval(&mut self, e: &E) -> R {
        match e {
            E::Lit(v) => Ok(v.clone()),
            E::Var(s) => match self.lookup(*s) {
                Some(Val::Item(id)) => match &self.p.items[id] {
                    ItemDef::Const(_) => self.const_val(id),
                    ItemDef::Fn(_) => Ok(Val::Item(id)),
                },
                Some(v) => Ok(v),
                // an unknown bare identifier: a unit constructor brought in by `use Enum::*`
                None => Ok(Val::Ctor(*s, Rc::new(vec![]))),
            },
            E::Path(s) => Ok(Val::Ctor(*s, Rc::new(vec![]))),
            E::DefaultError => Ok(Val::Unit),
            E::Call(f, args) => {
                let mut vals = Vec::with_capacity(args.len());
                for a in args {
                    vals.push(self.eval(a)?);
                }
                match &**f {
                    E::Var(s) => match self.lookup(*s) {
                        Some(Val::Item(id)) => self.call_fn(id, vals),
                        Some(_) => runtime_unsup("call of a local value"),
                        None => Ok(Val::Ctor(*s, Rc::new(vals))),
                    },
                    E::Path(s) => Ok(Val::Ctor(*s, Rc::new(vals))),
                    _ => runtime_unsup("callee expression"),
                }
            }
            E::Read(n, arr, off) => {
                let o = self.eval(off)?;
                let (o, _) = self.int(o, "read offset")?;
                let o = o as usize;
                if self.lex.trace {
                    self.lex.events.push(Event::Read(o, *n));
                }
                // src/source.rs: Some(chunk) iff offset + N <= len (checked addition)
                let some = self.p.s.some;
                let none = self.p.s.none;
                match o.checked_add(*n) {
                    Some(end) if end <= self.lex.src.len() => {
                        let v = if *arr { Val::Arr(Rc::new(self.lex.src[o..end].iter().map(|b| Val::Int(*b as i128, K::U8)).collect())) } else { Val::Int(self.lex.src[o] as i128, K::U8) };
                        Ok(Val::Ctor(some, Rc::new(vec![v])))
                    }
                    _ => Ok(Val::Ctor(none, Rc::new(vec![]))),
                }
            }
            E::Method(recv, name, args) => {
                let r = self.eval(recv)?;
                let mut vals = Vec::with_capacity(args.len());
                for a in args {
                    vals.push(self.eval(a)?);
                }
                let s = self.p.s;
                match r {
                    Val::Lex => {
                        if *name == s.end && vals.len() == 1 {
                            self.lex.token_end = self.int(vals.remove(0), "end")?.0 as usize;
                            Ok(Val::Unit)
                        } else if *name == s.end_to_boundary && vals.len() == 1 {
                            let o = self.int(vals.remove(0), "end_to_boundary")?.0 as usize;
                            self.lex.token_end = self.lex.find_boundary(o);
                            Ok(Val::Unit)
                        } else if *name == s.offset && vals.is_empty() {
                            Ok(Val::Int(self.lex.token_start as i128, K::Usize))
                        } else if *name == s.is_prefix && vals.is_empty() {
                            Ok(Val::Bool(self.lex.is_prefix))
                        } else if *name == s.trivia && vals.is_empty() {
                            self.lex.token_start = self.lex.token_end;
                            if self.lex.trace {
                                self.lex.events.push(Event::Restart(self.lex.token_start));
                            }
                            Ok(Val::Unit)
                        } else if *name == s.slice && vals.is_empty() {
                            Ok(Val::Slice(self.lex.token_start, self.lex.token_end))
                        } else {
                            runtime_unsup(format!("lexer method {}", self.p.syms.name(*name)))
                        }
                    }
                    Val::Int(a, k) if (*name == s.max || *name == s.min) && vals.len() == 1 => {
                        let (b, _) = self.int(vals.remove(0), "max/min")?;
                        Ok(Val::Int(if *name == s.max { a.max(b) } else { a.min(b) }, k))
                    }
                    other => runtime_unsup(format!("method {} on {other:?}", self.p.syms.name(*name))),
                }
            }
            E::Bin(Op::And, l, r) => {
                let a = self.eval(l)?;
                if !self.truthy(a)? {
                    return Ok(Val::Bool(false));
                }
                let b = self.eval(r)?;
                Ok(Val::Bool(self.truthy(b)?))
            }
            E::Bin(Op::Or, l, r) => {
                let a = self.eval(l)?;
                if self.truthy(a)? {
                    return Ok(Val::Bool(true));
                }
                let b = self.eval(r)?;
                Ok(Val::Bool(self.truthy(b)?))
            }
            E::Bin(op, l, r) => {
                let a = self.eval(l)?;
                let b = self.eval(r)?;
                self.binary(*op, a, b)
            }
            E::Un(Op::Not, x) => match self.eval(x)? {
                Val::Bool(b) => Ok(Val::Bool(!b)),
                Val::Int(v, K::U8) => Ok(Val::Int(!v & 0xff, K::U8)),
                _ => runtime_unsup("operand of !"),
            },
            E::Un(_, x) => {
                let v = self.eval(x)?;
                let (v, k) = self.int(v, "negation")?;
                range_check(-v, k, "negation")
            }
            E::Assign(s, v) => {
                let v = self.eval(v)?;
                self.set(*s, v)?;
                Ok(Val::Unit)
            }
            E::AssignOp(op, s, v) => {
                let r = self.eval(v)?;
                let Some(l) = self.lookup(*s) else { return runtime_unsup("compound assignment to unknown variable") };
                let nv = self.binary(*op, l, r)?;
                self.set(*s, nv)?;
                Ok(Val::Unit)
            }
            E::Index(a, i) => {
                let arr = self.eval(a)?;
                let idx = self.eval(i)?;
                let (i, _) = self.int(idx, "index")?;
                match arr {
                    Val::Arr(v) => match v.get(i as usize) {
                        Some(x) if i >= 0 => Ok(x.clone()),
                        _ => panic(format!("index {i} out of bounds (len {})", v.len())),
                    },
                    other => runtime_unsup(format!("indexing {other:?}")),
                }
            }
            E::Cast(x, k) => match self.eval(x)? {
                Val::Int(v, _) => Ok(Val::Int(match k { K::U8 => v & 0xff, _ => v }, *k)),
                // a field-less enum cast to an integer is not something the generated code does
                other => runtime_unsup(format!("cast of {other:?}")),
            },
            E::If(c, then, els) => {
                let c = self.eval(c)?;
                if self.truthy(c)? {
                    self.block(then)
                } else if let Some(e) = els {
                    self.eval(e)
                } else {
                    Ok(Val::Unit)
                }
            }
            E::IfLet(p, scrut, then, els) => {
                let v = self.eval(scrut)?;
                let n = self.env.len();
                if self.bind(p, &v) {
                    let r = self.block(then);
                    self.env.truncate(n);
                    r
                } else {
                    self.env.truncate(n);
                    if let Some(e) = els { self.eval(e) } else { Ok(Val::Unit) }
                }
            }
            E::WhileLet(p, scrut, body, label) => loop {
                if self.budget == 0 {
                    return Err(Flow::Stop(Stop::Budget));
                }
                self.budget -= 1;
                let v = self.eval(scrut)?;
                let n = self.env.len();
                if !self.bind(p, &v) {
                    self.env.truncate(n);
                    return Ok(Val::Unit);
                }
                let r = self.block(body);
                self.env.truncate(n);
                if let Err(f) = r {
                    if self.loop_ctl(f, label)?.is_some() {
                        return Ok(Val::Unit);
                    }
                }
            },
            E::While(c, body, label) => loop {
                if self.budget == 0 {
                    return Err(Flow::Stop(Stop::Budget));
                }
                self.budget -= 1;
                let c = self.eval(c)?;
                if !self.truthy(c)? {
                    return Ok(Val::Unit);
                }
                if let Err(f) = self.block(body) {
                    if self.loop_ctl(f, label)?.is_some() {
                        return Ok(Val::Unit);
                    }
                }
            },
            E::Loop(body, label) => loop {
                if self.budget == 0 {
                    return Err(Flow::Stop(Stop::Budget));
                }
                self.budget -= 1;
                if let Err(f) = self.block(body) {
                    if let Some(v) = self.loop_ctl(f, label)? {
                        return Ok(v);
                    }
                }
            },
            E::Match(scrut, arms) => {
                let v = self.eval(scrut)?;
                for (p, g, body) in arms {
                    let n = self.env.len();
                    if self.bind(p, &v) {
                        let ok = match g {
                            Some(g) => {
                                let gv = self.eval(g);
                                match gv {
                                    Ok(gv) => self.truthy(gv)?,
                                    Err(f) => {
                                        self.env.truncate(n);
                                        return Err(f);
                                    }
                                }
                            }
                            None => true,
                        };
                        if ok {
                            let r = self.eval(body);
                            self.env.truncate(n);
                            return r;
                        }
                    }
                    self.env.truncate(n);
                }
                runtime_unsup("no match arm applies (a value the interpreter does not model)")
            }
            E::Blk(b, label) => match self.block(b) {
                Err(Flow::Break(Some(l), v)) if label.is_some() && Some(l) == *label => Ok(v),
                other => other,
            },
            E::Return(v) => {
                // `return f(args)` with f a function item: a tail call (what rustc is expected to emit)
                if let Some(b) = v {
                    if let E::Call(f, args) = &**b {
                        if let E::Var(s) = &**f {
                            if let Some(Val::Item(id)) = self.lookup(*s) {
                                if matches!(self.p.items[id], ItemDef::Fn(_)) {
                                    let mut vals = Vec::with_capacity(args.len());
                                    for a in args {
                                        vals.push(self.eval(a)?);
                                    }
                                    return Err(Flow::Tail(id, vals));
                                }
                            }
                        }
                    }
                    let v = self.eval(b)?;
                    return Err(Flow::Return(v));
                }
                Err(Flow::Return(Val::Unit))
            }
            E::Break(l, v) => {
                let v = match v {
                    Some(e) => self.eval(e)?,
                    None => Val::Unit,
                };
                Err(Flow::Break(*l, v))
            }
            E::Continue(l) => Err(Flow::Continue(*l)),
            E::Array(xs) => {
                let mut v = Vec::with_capacity(xs.len());
                for x in xs {
                    v.push(self.eval(x)?);
                }
                Ok(Val::Arr(Rc::new(v)))
            }
            E::Matches(x, p, g) => {
                let v = self.eval(x)?;
                let n = self.env.len();
                let mut m = self.bind(p, &v);
                if m {
                    if let Some(g) = g {
                        let gv = self.eval(g)?;
                        m = self.truthy(gv)?;
                    }
                }
                self.env.truncate(n);
                Ok(Val::Bool(m))
            }
            E::Unreachable => panic("unreachable!() executed"),
        }
    }

    /// One `Lexer::next()`: `token_start = token_end; Token::lex(self)`.
    pub fn next(&mut self) -> Result<Val, Stop> {
        self.lex.token_start = self.lex.token_end;
        if self.lex.trace {
            self.lex.events.push(Event::Next(self.lex.token_start));
        }
        self.env.clear();
        self.base = 0;
        self.env.push((self.p.entry_param, Val::Lex));
        self.last_leaf = None;
        let mut r = self.block(&self.p.entry);
        loop {
            match r {
                Ok(v) | Err(Flow::Return(v)) => return Ok(v),
                Err(Flow::Tail(id, args)) => r = self.call_fn(id, args),
                Err(Flow::Stop(s)) => return Err(s),
                Err(Flow::Break(..)) | Err(Flow::Continue(_)) => return Err(Stop::Unsupported("break/continue outside a loop".into())),
            }
        }
    }
}
