//! vdrive: runs the REAL `logos_codegen::generate` / `strip_attributes` on rendered enum source
//! and hands back what the harness may observe (token string, captured graph, diagnostics).
use proc_macro2::{TokenStream, TokenTree};
use std::sync::Once;
use vcore::analysis::Observed;
use vcore::graph::{GLeaf, GState, Graph};

pub use logos_codegen::verif_hooks;

static QUIET: Once = Once::new();

/// silence the default panic message (panics are caught and reported by the harness)
pub fn quiet_panics() {
    QUIET.call_once(|| {
        std::panic::set_hook(Box::new(|_| {}));
    });
}

pub fn convert(d: logos_codegen::verif_hooks::GraphDump) -> Graph {
    Graph {
        root: d.root,
        states: d
            .states
            .into_iter()
            .map(|s| GState { accept: s.accept, early: s.early, normal: s.normal, eoi: s.eoi })
            .collect(),
        leaves: d
            .leaves
            .into_iter()
            .map(|l| GLeaf { priority: l.priority, display: l.display, skip: l.skip, has_callback: l.has_callback })
            .collect(),
        errors: d.errors,
    }
}

fn collect_errors(ts: TokenStream, out: &mut Vec<String>) {
    let v: Vec<TokenTree> = ts.into_iter().collect();
    for (i, t) in v.iter().enumerate() {
        match t {
            TokenTree::Ident(id) if id == "compile_error" => {
                if let (Some(TokenTree::Punct(p)), Some(TokenTree::Group(g))) = (v.get(i + 1), v.get(i + 2)) {
                    if p.as_char() == '!' {
                        let msg = match syn::parse2::<syn::LitStr>(g.stream()) {
                            Ok(l) => l.value(),
                            Err(_) => g.stream().to_string(),
                        };
                        out.push(msg);
                    }
                }
            }
            TokenTree::Group(g) => collect_errors(g.stream(), out),
            _ => {}
        }
    }
}

pub struct Generated {
    pub observed: Observed,
    /// generate()'s output, if it did not panic
    pub tokens: Option<TokenStream>,
}

fn panic_msg(e: Box<dyn std::any::Any + Send>) -> String {
    if let Some(s) = e.downcast_ref::<&str>() {
        s.to_string()
    } else if let Some(s) = e.downcast_ref::<String>() {
        s.clone()
    } else {
        "<non-string panic>".into()
    }
}

/// Run the real derive entry point on `src`. `state_machine`: which code generator.
pub fn generate(src: &str, state_machine: bool) -> Generated {
    quiet_panics();
    verif_hooks::set_state_machine(Some(state_machine));
    let _ = verif_hooks::take_graph();
    let ts: TokenStream = match src.parse() {
        Ok(t) => t,
        Err(e) => {
            return Generated {
                observed: Observed { panicked: Some(format!("harness: source does not lex: {e}")), ..Default::default() },
                tokens: None,
            }
        }
    };
    let res = std::panic::catch_unwind(|| logos_codegen::generate(ts));
    let graph = verif_hooks::take_graph().map(convert);
    match res {
        Err(e) => Generated {
            observed: Observed { accepted: false, graph, errors: vec![], panicked: Some(panic_msg(e)), explicit_default_differs: None },
            tokens: None,
        },
        Ok(out) => {
            let mut errors = vec![];
            collect_errors(out.clone(), &mut errors);
            Generated { observed: Observed { accepted: errors.is_empty(), graph, errors, panicked: None, explicit_default_differs: None }, tokens: Some(out) }
        }
    }
}

pub fn strip(src: &str) -> Result<TokenStream, String> {
    quiet_panics();
    let ts: TokenStream = src.parse().map_err(|e| format!("{e}"))?;
    std::panic::catch_unwind(|| logos_codegen::strip_attributes(ts)).map_err(panic_msg)
}
