//! Generic runners used by every generated lexer module: they record the complete observable run
//! of a real `logos::Lexer` (items, spans, the final None) without ever asking for a slice whose
//! bounds have not been checked numerically first.
use logos::{Lexer, Logos};

pub trait Tok {
    fn id(&self) -> u16;
}

pub struct Req<'a> {
    pub input: &'a [u8],
    pub partial: bool,
    /// record the read trace (needs the `trace` feature, otherwise ignored)
    pub trace: bool,
}

pub const BAD_SPAN: u32 = 1;
pub const HUNG: u32 = 2;
pub const NOT_FUSED: u32 = 4;
pub const SLICE_MISMATCH: u32 = 8;
pub const SPANNED_MISMATCH: u32 = 16;

#[derive(Default, Clone, Debug, PartialEq, Eq)]
pub struct RunBuf {
    /// (variant id or -1 for Err, start, end)
    pub items: Vec<(i32, u32, u32)>,
    /// span when the iterator returned None
    pub end_start: u32,
    pub end_pos: u32,
    pub flags: u32,
    /// (kind 0 = next, 1 = restart, 2 = read; offset; size)
    pub events: Vec<(u8, u32, u32)>,
}

impl RunBuf {
    pub fn clear(&mut self) {
        self.items.clear();
        self.events.clear();
        self.end_start = 0;
        self.end_pos = 0;
        self.flags = 0;
    }
}

macro_rules! drive {
    ($lex:ident, $len:expr, $is_boundary:expr, $out:ident, $req:ident) => {{
        let len: usize = $len;
        #[cfg(feature = "trace")]
        if $req.trace {
            logos::verif::start();
        }
        let mut n = 0usize;
        loop {
            let r = $lex.next();
            let sp = $lex.span();
            let ok = sp.start <= sp.end && sp.end <= len && $is_boundary(sp.start) && $is_boundary(sp.end);
            if !ok {
                $out.flags |= BAD_SPAN;
            } else {
                // only now is it safe to ask for slices in the unchecked build
                if $lex.slice().len() != sp.end - sp.start || $lex.remainder().len() != len - sp.end {
                    $out.flags |= SLICE_MISMATCH;
                }
            }
            match r {
                Some(Ok(t)) => $out.items.push((t.id() as i32, sp.start as u32, sp.end as u32)),
                Some(Err(())) => $out.items.push((-1, sp.start as u32, sp.end as u32)),
                None => {
                    $out.end_start = sp.start as u32;
                    $out.end_pos = sp.end as u32;
                    break;
                }
            }
            if !ok {
                break;
            }
            n += 1;
            if n > len + 2 {
                $out.flags |= HUNG;
                break;
            }
        }
        if $out.flags & (BAD_SPAN | HUNG) == 0 && !$req.partial {
            for _ in 0..3 {
                if $lex.next().is_some() {
                    $out.flags |= NOT_FUSED;
                }
            }
        }
        #[cfg(feature = "trace")]
        if $req.trace {
            for e in logos::verif::stop() {
                $out.events.push(match e {
                    logos::verif::Event::Next(o) => (0, o as u32, 0),
                    logos::verif::Event::Restart(o) => (1, o as u32, 0),
                    logos::verif::Event::Read(o, s) => (2, o.min(u32::MAX as usize) as u32, s as u32),
                });
            }
        }
    }};
}

pub fn run_str<'a, T>(req: &Req<'a>, out: &mut RunBuf)
where
    T: Logos<'a, Source = str, Extras = (), Error = ()> + Tok,
{
    let s: &'a str = std::str::from_utf8(req.input).expect("harness feeds valid UTF-8 to str lexers");
    // the four constructors are interchangeable: which one is used alternates with the input length
    let mut lex: Lexer<'a, T> = match (req.partial, s.len() % 2 == 0) {
        (true, true) => Lexer::new_partial(s),
        (true, false) => Lexer::partial_with_extras(s, ()),
        (false, true) => Lexer::new(s),
        (false, false) => Lexer::with_extras(s, ()),
    };
    drive!(lex, s.len(), |i: usize| s.is_char_boundary(i), out, req);
}

pub fn run_bytes<'a, T>(req: &Req<'a>, out: &mut RunBuf)
where
    T: Logos<'a, Source = [u8], Extras = (), Error = ()> + Tok,
{
    let s: &'a [u8] = req.input;
    let mut lex: Lexer<'a, T> = match (req.partial, s.len() % 2 == 0) {
        (true, true) => Lexer::new_partial(s),
        (true, false) => Lexer::partial_with_extras(s, ()),
        (false, true) => Lexer::new(s),
        (false, false) => Lexer::with_extras(s, ()),
    };
    drive!(lex, s.len(), |_i: usize| true, out, req);
}

/// spanned() must yield exactly the (item, span) pairs of manual iteration
pub fn spanned_str<'a, T>(input: &'a [u8], out: &mut RunBuf)
where
    T: Logos<'a, Source = str, Extras = (), Error = ()> + Tok,
{
    let s: &'a str = std::str::from_utf8(input).expect("valid UTF-8");
    for (r, sp) in Lexer::<'a, T>::new(s).spanned() {
        out.items.push((r.map(|t| t.id() as i32).unwrap_or(-1), sp.start as u32, sp.end as u32));
        if out.items.len() > s.len() + 2 {
            out.flags |= HUNG;
            break;
        }
    }
}

/// `Source::read` enumeration for C05: returns Some(bytes) iff offset + N <= len
pub fn read_probe(src: &[u8], as_str: bool, offset: usize, n: usize) -> Option<Vec<u8>> {
    use logos::Source;
    macro_rules! probe {
        ($s:expr) => {
            match n {
                0 => $s.read::<u8>(offset).map(|b| vec![b]),
                100 => $s.read::<&[u8; 0]>(offset).map(|a| a.to_vec()),
                1 => $s.read::<&[u8; 1]>(offset).map(|a| a.to_vec()),
                2 => $s.read::<&[u8; 2]>(offset).map(|a| a.to_vec()),
                3 => $s.read::<&[u8; 3]>(offset).map(|a| a.to_vec()),
                4 => $s.read::<&[u8; 4]>(offset).map(|a| a.to_vec()),
                7 => $s.read::<&[u8; 7]>(offset).map(|a| a.to_vec()),
                8 => $s.read::<&[u8; 8]>(offset).map(|a| a.to_vec()),
                9 => $s.read::<&[u8; 9]>(offset).map(|a| a.to_vec()),
                16 => $s.read::<&[u8; 16]>(offset).map(|a| a.to_vec()),
                32 => $s.read::<&[u8; 32]>(offset).map(|a| a.to_vec()),
                _ => panic!("unsupported chunk size"),
            }
        };
    }
    if as_str {
        let s = std::str::from_utf8(src).expect("valid UTF-8");
        let direct = probe!(s);
        // the same read through the wrapper impls (`impl<T: Deref> Source for T`) must agree
        let owned: String = s.to_string();
        let boxed: Box<str> = s.into();
        let (a, b, c) = (probe!(owned), probe!(boxed), probe!(&s));
        if a != direct || b != direct || c != direct {
            return Some(vec![0xde, 0xad]);
        }
        direct
    } else {
        let direct = probe!(src);
        let owned: Vec<u8> = src.to_vec();
        let (a, b) = (probe!(owned), probe!(&src));
        if a != direct || b != direct {
            return Some(vec![0xde, 0xad]);
        }
        direct
    }
}

pub fn features() -> &'static str {
    if cfg!(feature = "forbid_unsafe") {
        "forbid_unsafe"
    } else {
        "default(unsafe)"
    }
}
