#![allow(warnings)]
include!(concat!(env!("VRT_GEN_DIR"), "/shard0.rs"));
