#![allow(warnings)]
include!(concat!(env!("VRT_GEN_DIR"), "/shard1.rs"));
