//! vrt: Layer 2 - replays model traces against the COMPILED output of the real code generator
//! (both back ends), comparing with the graph interpreter's prediction and the reference lexer.
mod inputs;
mod props;

use rayon::prelude::*;
use serde::Deserialize;
use std::collections::BTreeMap;
use vcore::analysis::{self, RefInfo};
use vcore::graph::{Graph, Item, Run};
use vcore::reflex::RefLexer;
use vcore::report::Report;
use vcore::spec::{Kind, Spec};
use vrt_api::{Req, RunBuf};

#[derive(Deserialize, Clone)]
pub struct Entry {
    pub idx: usize,
    pub name: String,
    pub spec: Spec,
    pub graph: Graph,
}

pub struct Def {
    pub e: Entry,
    pub info: RefInfo,
    pub skip: Vec<bool>,
}

impl Def {
    pub fn is_str(&self) -> bool {
        self.e.spec.utf8
    }
    pub fn reflex(&self) -> RefLexer<'_> {
        RefLexer { ra: &self.info.ra, prios: &self.info.prios, skip: &self.skip, is_str: self.is_str() }
    }
}

pub fn real(idx: usize, backend: u8, req: &Req, out: &mut RunBuf) {
    out.clear();
    let ok = match idx % 8 {
        0 => vrt_s0::run(idx, backend, req, out),
        1 => vrt_s1::run(idx, backend, req, out),
        2 => vrt_s2::run(idx, backend, req, out),
        3 => vrt_s3::run(idx, backend, req, out),
        4 => vrt_s4::run(idx, backend, req, out),
        5 => vrt_s5::run(idx, backend, req, out),
        6 => vrt_s6::run(idx, backend, req, out),
        _ => vrt_s7::run(idx, backend, req, out),
    };
    assert!(ok, "no compiled lexer for definition {idx}");
}

/// the real run in the vocabulary of the model
pub fn to_run(b: &RunBuf) -> Run {
    Run {
        items: b.items.iter().map(|&(id, s, e)| if id < 0 { Item::Err(s as usize, e as usize) } else { Item::Tok(id as usize, s as usize, e as usize) }).collect(),
        skips: vec![],
        end_pos: b.end_pos as usize,
        end_start: b.end_start as usize,
        hung: b.flags & vrt_api::HUNG != 0,
    }
}

pub struct Args {
    pub cmd: String,
    pub prop: String,
    pub tier: String,
    pub out: String,
    pub corpus: String,
    pub seed: u64,
    pub file: Option<String>,
    pub only: Option<usize>,
    /// "i/n": only definitions with idx % n == i (child process of a sharded run)
    pub shard: Option<(usize, usize)>,
}

fn parse_args() -> Args {
    let a: Vec<String> = std::env::args().collect();
    let mut args = Args { cmd: a.get(1).cloned().unwrap_or_default(), prop: String::new(), tier: "quick".into(), out: String::new(), corpus: String::new(), seed: 0, file: None, only: None, shard: None };
    let mut i = 2;
    while i < a.len() {
        match a[i].as_str() {
            "--prop" => args.prop = a[i + 1].clone(),
            "--tier" => args.tier = a[i + 1].clone(),
            "--out" => args.out = a[i + 1].clone(),
            "--corpus" => args.corpus = a[i + 1].clone(),
            "--seed" => args.seed = a[i + 1].parse().unwrap_or(0),
            "--file" => args.file = Some(a[i + 1].clone()),
            "--only" => args.only = a[i + 1].parse().ok(),
            "--shard" => {
                let (x, y) = a[i + 1].split_once('/').expect("i/n");
                args.shard = Some((x.parse().unwrap(), y.parse().unwrap()));
            }
            x => panic!("unknown argument {x}"),
        }
        i += 2;
    }
    args
}

pub fn load(corpus: &str) -> Vec<Def> {
    load_only(corpus, None)
}

/// the definitions of one child: its shard (or single definition) and, for C12, their utf8=false twins
pub fn load_selected(args: &Args) -> Vec<Def> {
    let text = std::fs::read_to_string(&args.corpus).expect("corpus.json");
    let entries: Vec<Entry> = serde_json::from_str(&text).expect("corpus json");
    let mine = |e: &Entry| args.only.map_or(true, |o| o == e.idx) && args.shard.map_or(true, |(i, n)| e.idx % n == i);
    let mut keep: std::collections::BTreeSet<usize> = entries.iter().filter(|e| mine(e)).map(|e| e.idx).collect();
    if args.prop == "C12" {
        let twins: Vec<usize> = entries.iter().filter(|e| keep.contains(&e.idx)).filter_map(|e| entries.iter().find(|t| t.name == format!("{}__b", e.name)).map(|t| t.idx)).collect();
        keep.extend(twins);
    }
    entries
        .into_par_iter()
        .filter(|e| keep.contains(&e.idx))
        .map(|e| {
            let bounds = e.graph.range_boundaries();
            let fallback: Vec<usize> = e.graph.leaves.iter().map(|l| l.priority).collect();
            let info = analysis::analyse(&e.spec, &bounds, Some(&fallback), 200_000).unwrap_or_else(|m| panic!("compiled definition {} has no reference: {m:?}", e.name));
            let skip = e.spec.pats.iter().map(|p| p.kind == Kind::Skip).collect();
            Def { e, info, skip }
        })
        .collect()
}

pub fn load_only(corpus: &str, only: Option<usize>) -> Vec<Def> {
    let text = std::fs::read_to_string(corpus).expect("corpus.json");
    let entries: Vec<Entry> = serde_json::from_str(&text).expect("corpus json");
    entries
        .into_par_iter()
        .filter(|e| only.map_or(true, |o| o == e.idx))
        .map(|e| {
            let bounds = e.graph.range_boundaries();
            let fallback: Vec<usize> = e.graph.leaves.iter().map(|l| l.priority).collect();
            let info = analysis::analyse(&e.spec, &bounds, Some(&fallback), 200_000).unwrap_or_else(|m| panic!("compiled definition {} has no reference: {m:?}", e.name));
            let skip = e.spec.pats.iter().map(|p| p.kind == Kind::Skip).collect();
            Def { e, info, skip }
        })
        .collect()
}

fn main() {
    let args = parse_args();
    let t0 = std::time::Instant::now();
    let mut rep = Report::new(&args.prop, &format!("vrt [{} {}]", vrt_api::features(), if cfg!(debug_assertions) { "dev" } else { "release" }), &args.tier);
    match args.cmd.as_str() {
        "layer2" => {
            if args.shard.is_some() || args.only.is_some() {
                // child: one slice of the corpus, in-process
                let defs: Vec<Def> = load_selected(&args);
                props::layer2(&args, &defs, &mut rep);
            } else {
                props::layer2_sharded(&args, &mut rep);
            }
        }
        "readprobe" => props::read_probe(&args, &mut rep),
        "rawrun" => props::rawrun(&args, &mut rep),
        "stack" => props::stack(&args, &mut rep),
        "stack-child" => {
            let defs = load_only(&args.corpus, args.only);
            props::stack_child(&args, &defs, &mut rep);
        }
        "readprobe-child" => props::read_probe_child(&args, &mut rep),
        "replay" => {
            let defs = load(&args.corpus);
            props::replay(&args, &defs, &mut rep);
        }
        x => panic!("unknown command {x}"),
    }
    rep.counts.insert("wall_ms".into(), t0.elapsed().as_millis() as u64);
    let _ = BTreeMap::<u8, u8>::new();
    if args.out.is_empty() {
        println!("{}", serde_json::to_string_pretty(&rep).unwrap());
    } else {
        rep.write(&args.out);
        eprintln!("vrt {} {} [{}]: programs={} traces={} violations={} ({} ms)", args.cmd, args.prop, rep.engine, rep.counts.get("programs").copied().unwrap_or(0), rep.counts.get("traces_validated_against_impl").copied().unwrap_or(0), rep.violations.len(), t0.elapsed().as_millis());
    }
}
