//! Per-property oracles evaluated on replayed inputs.
use crate::inputs::{self, Sym};
use crate::{real, to_run, Args, Def};
use rayon::prelude::*;
use serde_json::json;
use std::collections::BTreeMap;
use vcore::graph::{Item, Run};
use vcore::report::{Report, Violation};
use vrt_api::{Req, RunBuf};

struct Ctx<'a> {
    /// when set, check_input only records (definition, input) for the memory-checker pass
    dump: Option<Vec<Vec<u8>>>,
    prop: &'a str,
    def: &'a Def,
    twin: Option<&'a Def>,
    viol: Vec<Violation>,
    runs: u64,
    inputs: u64,
    counts: BTreeMap<&'static str, u64>,
    b_tc: RunBuf,
    b_sm: RunBuf,
    b_x: RunBuf,
    trace: bool,
    max_ratio: f64,
    seen: std::collections::HashSet<Vec<u8>>,
    nontrivial: u64,
}

fn toks(r: &Run) -> Vec<Item> {
    r.items.iter().filter(|i| matches!(i, Item::Tok(..))).cloned().collect()
}
fn errs(r: &Run) -> Vec<Item> {
    r.items.iter().filter(|i| matches!(i, Item::Err(..))).cloned().collect()
}

impl<'a> Ctx<'a> {
    fn new(prop: &'a str, def: &'a Def, twin: Option<&'a Def>) -> Self {
        Ctx { dump: None, prop, def, twin, viol: vec![], runs: 0, inputs: 0, counts: BTreeMap::new(), b_tc: RunBuf::default(), b_sm: RunBuf::default(), b_x: RunBuf::default(), trace: cfg!(feature = "trace"), max_ratio: 0.0, seen: Default::default(), nontrivial: 0 }
    }
    fn bump(&mut self, k: &'static str) {
        *self.counts.entry(k).or_insert(0) += 1;
    }
    fn complain(&mut self, tag: &str, input: &[u8], detail: String, extra: serde_json::Value) {
        if self.viol.len() >= 4 {
            return;
        }
        let d = self.def;
        self.viol.push(Violation {
            key: format!("{tag}/{}", d.e.spec.short()),
            tag: tag.into(),
            case: format!("{} {}", d.e.name, d.e.spec.short()),
            detail: format!("input {} ({} bytes): {detail}", vcore::show(input), input.len()),
            replay: json!({"kind": "layer2", "prop": self.prop, "name": d.e.name, "spec": d.e.spec, "input_hex": vcore::hex(input), "extra": extra, "tag": tag}),
        });
    }

    /// one-shot lexing of `input` by both back ends + model + reference
    fn check_input(&mut self, input: &[u8]) {
        if let Some(d) = self.dump.as_mut() {
            d.push(input.to_vec());
            return;
        }
        self.inputs += 1;
        let d = self.def;
        let is_str = d.is_str();
        // exactly sized heap allocation: the byte after the input is not addressable (C05)
        let boxed: Box<[u8]> = input.to_vec().into_boxed_slice();
        let req = Req { input: &boxed, partial: false, trace: self.trace && self.prop == "C20" };
        let mut tc = std::mem::take(&mut self.b_tc);
        let mut sm = std::mem::take(&mut self.b_sm);
        real(d.e.idx, 0, &req, &mut tc);
        real(d.e.idx, 1, &req, &mut sm);
        self.runs += 2;
        let exp = d.reflex().run(input);
        let model = d.e.graph.run(input, is_str, false);
        let len = input.len();
        // distinct inputs whose expected stream is more than a single token: >= 2 items, an error or a skip
        if (exp.items.len() >= 2 || !exp.skips.is_empty() || exp.items.iter().any(|i| matches!(i, Item::Err(..)))) && self.seen.insert(input.to_vec()) {
            self.nontrivial += 1;
        }
        for (name, b) in [("tailcall", &tc), ("state_machine", &sm)] {
            let r = to_run(b);
            match self.prop {
                "C01" | "C05" | "C09" => {
                    if toks(&r) != toks(&exp) {
                        self.complain("TOKENS", input, format!("[{name}] tokens {:?}, reference {:?}", r.items, exp.items), json!({}));
                    }
                    if self.prop == "C05" && (r.items != exp.items || b.flags != 0) {
                        self.complain("UNSAFE-DIFF", input, format!("[{name}] {} build: items {:?} flags {}, reference {:?}", vrt_api::features(), r.items, b.flags, exp.items), json!({}));
                    }
                }
                "C10" | "C11" => {
                    if r.items != exp.items || r.end_pos != exp.end_pos {
                        self.complain("LAYER2-DIFF", input, format!("[{name}] items {:?}, reference {:?}", r.items, exp.items), json!({}));
                    }
                }
                "C02" => {
                    if errs(&r) != errs(&exp) {
                        self.complain("ERRORS", input, format!("[{name}] items {:?}, reference {:?}", r.items, exp.items), json!({}));
                    } else if r.items != exp.items {
                        self.complain("RECOVERY", input, format!("[{name}] lexing does not resume as the reference: items {:?}, reference {:?}", r.items, exp.items), json!({}));
                    }
                }
                "C03" => {
                    let mut prev = 0usize;
                    let mut bad = None;
                    if b.flags & vrt_api::HUNG != 0 {
                        bad = Some("more items than input bytes (no progress)".to_string());
                    }
                    if b.flags & vrt_api::NOT_FUSED != 0 {
                        bad = Some("an item was returned after None".to_string());
                    }
                    for it in &r.items {
                        let (s, e) = it.span();
                        if e <= s {
                            bad = Some(format!("empty or inverted span {s}..{e}"));
                        }
                        if s < prev {
                            bad = Some(format!("span {s}..{e} overlaps the previous item (end {prev})"));
                        }
                        prev = e;
                    }
                    if b.flags & (vrt_api::HUNG | vrt_api::BAD_SPAN) == 0 && r.end_pos != len {
                        bad = Some(format!("iteration ended at {} but the input has {} bytes", r.end_pos, len));
                    }
                    if r.items.len() > len {
                        bad = Some("more items than bytes".into());
                    }
                    // gaps are exactly the skipped regions
                    let mut covered = vec![false; len];
                    for it in &r.items {
                        let (s, e) = it.span();
                        for c in covered.iter_mut().take(e.min(len)).skip(s) {
                            *c = true;
                        }
                    }
                    let mut skipped = vec![false; len];
                    for &(_, s, e) in &exp.skips {
                        for c in skipped.iter_mut().take(e).skip(s) {
                            *c = true;
                        }
                    }
                    if bad.is_none() && (0..len).any(|i| covered[i] == skipped[i]) {
                        bad = Some(format!("gaps between items {:?} are not exactly the skipped regions {:?}", r.items, exp.skips));
                    }
                    if let Some(m) = bad {
                        self.complain("TILING", input, format!("[{name}] {m}"), json!({}));
                    }
                }
                "C04" => {
                    if b.flags & (vrt_api::BAD_SPAN | vrt_api::SLICE_MISMATCH) != 0 {
                        self.complain("BOUNDARY", input, format!("[{name}] a span boundary is out of range or inside a code point: items {:?} end {}..{}", r.items, r.end_start, r.end_pos), json!({}));
                    }
                }
                _ => {}
            }
            // binding of the model to the emitted code (all Layer-1 backed properties)
            if matches!(self.prop, "C01" | "C02" | "C03" | "C07" | "C20") && (r.items != model.items || (r.end_pos != model.end_pos && !r.hung)) {
                self.complain("BINDING", input, format!("[{name}] the compiled lexer yields {:?} (end {}), the graph interpreter predicts {:?} (end {})", r.items, r.end_pos, model.items, model.end_pos), json!({}));
            }
        }
        if self.prop == "C04" {
            // the same input as a prefix buffer: the span at None and every committed span must sit on boundaries
            let mut x = std::mem::take(&mut self.b_x);
            for be in [0u8, 1] {
                real(d.e.idx, be, &Req { input: &boxed, partial: true, trace: false }, &mut x);
                self.runs += 1;
                if x.flags & (vrt_api::BAD_SPAN | vrt_api::SLICE_MISMATCH) != 0 {
                    self.complain("BOUNDARY", input, format!("[partial, backend {be}] a span boundary is out of range or inside a code point: items {:?} end {}..{}", x.items, x.end_start, x.end_pos), json!({"partial": true}));
                }
            }
            self.b_x = x;
        }
        if self.prop == "C06" {
            // the same buffer through partial lexers of both back ends
            let mut x = std::mem::take(&mut self.b_x);
            real(d.e.idx, 0, &Req { input: &boxed, partial: true, trace: false }, &mut x);
            let ptc = x.clone();
            real(d.e.idx, 1, &Req { input: &boxed, partial: true, trace: false }, &mut x);
            self.runs += 2;
            if ptc != x {
                self.complain("BACKENDS-DIFFER", input, format!("partial lexers: tailcall {:?} end {}..{} flags {} | state machine {:?} end {}..{} flags {}", ptc.items, ptc.end_start, ptc.end_pos, ptc.flags, x.items, x.end_start, x.end_pos, x.flags), json!({"partial": true}));
            }
            self.b_x = x;
        }
        if self.prop == "C06" && tc != sm {
            self.complain("BACKENDS-DIFFER", input, format!("tailcall {:?} end {}..{} flags {} | state machine {:?} end {}..{} flags {}", tc.items, tc.end_start, tc.end_pos, tc.flags, sm.items, sm.end_start, sm.end_pos, sm.flags), json!({}));
        }
        if self.prop == "C12" {
            if let Some(tw) = self.twin {
                let mut x = std::mem::take(&mut self.b_x);
                for be in [0u8, 1] {
                    real(tw.e.idx, be, &req, &mut x);
                    self.runs += 1;
                    let a = to_run(if be == 0 { &tc } else { &sm });
                    let b = to_run(&x);
                    let cover = |r: &Run| {
                        let mut c = vec![false; len];
                        for it in &r.items {
                            if let Item::Err(s, e) = it {
                                for v in c.iter_mut().take((*e).min(len)).skip(*s) {
                                    *v = true;
                                }
                            }
                        }
                        c
                    };
                    if toks(&a) != toks(&b) || cover(&a) != cover(&b) {
                        self.complain("MODES-DIFFER", input, format!("str mode {:?} | utf8 = false {:?}", a.items, b.items), json!({"twin": tw.e.name}));
                    }
                }
                self.b_x = x;
            }
        }
        if self.prop == "C20" && self.trace {
            self.check_trace(input, &tc, "tailcall");
            self.check_trace(input, &sm, "state_machine");
            // the same input as the buffer of a PARTIAL lexer (the bail-out at the end of the
            // buffer must not re-read what the attempt has already passed)
            let mut x = std::mem::take(&mut self.b_x);
            for (be, name) in [(0u8, "tailcall, partial"), (1, "state_machine, partial")] {
                real(d.e.idx, be, &Req { input: &boxed, partial: true, trace: true }, &mut x);
                self.runs += 1;
                self.check_trace(input, &x, name);
            }
            self.b_x = x;
            // every attempt (next() or restart after a skip) starts exactly at the end of the
            // previous item or skip: the sequence of attempt starts is the sequence of segment starts
            let mut segs: Vec<usize> = exp.items.iter().map(|i| i.span().0).chain(exp.skips.iter().map(|s| s.1)).collect();
            segs.sort();
            for (name, b) in [("tailcall", &tc), ("state_machine", &sm)] {
                if b.flags != 0 {
                    continue;
                }
                let starts: Vec<usize> = b.events.iter().filter(|e| e.0 != 2).map(|e| e.1 as usize).collect();
                // the final attempts (the one returning None and the three fused calls) start at the end
                let body: Vec<usize> = starts.iter().copied().take(segs.len()).collect();
                let tail_ok = starts.iter().skip(segs.len()).all(|s| *s == exp.end_pos);
                if body != segs || !tail_ok {
                    self.complain("ATTEMPT-START", input, format!("[{name}] attempts start at {starts:?}, items and skips start at {segs:?} (end {})", exp.end_pos), json!({}));
                }
            }
        }
        self.b_tc = tc;
        self.b_sm = sm;
    }

    /// C20: inside one attempt read offsets never decrease, reads are linearly bounded, every
    /// attempt starts at the end of the previous item or skip.
    fn check_trace(&mut self, input: &[u8], b: &RunBuf, name: &str) {
        let mut start = 0u32;
        let mut last = 0u32;
        let mut reads = 0u64;
        let mut far = 0u32;
        let mut expected_start: Option<u32> = Some(0);
        let mut item_i = 0usize;
        let mut bad: Option<String> = None;
        let mut finish = |reads: u64, start: u32, far: u32, bad: &mut Option<String>, max_ratio: &mut f64| {
            let span = (far.saturating_sub(start)) as u64 + 1;
            let bound = 2 * span + 6;
            let ratio = reads as f64 / span as f64;
            if ratio > *max_ratio && span > 8 {
                *max_ratio = ratio;
            }
            if reads > bound {
                *bad = Some(format!("{reads} reads for {span} bytes examined (bound {bound})"));
            }
        };
        for &(k, off, size) in &b.events {
            match k {
                0 | 1 => {
                    if reads > 0 {
                        finish(reads, start, far, &mut bad, &mut self.max_ratio);
                    }
                    if k == 0 {
                        // next(): starts at the end of the previous item
                        let want = if item_i == 0 { 0 } else { b.items.get(item_i - 1).map(|x| x.2).unwrap_or(off) };
                        if off != want && b.flags == 0 {
                            bad = Some(format!("attempt starts at {off}, previous item ended at {want}"));
                        }
                        item_i += 1;
                    } else if let Some(e) = expected_start {
                        let _ = e;
                    }
                    start = off;
                    last = off;
                    far = off;
                    reads = 0;
                    expected_start = None;
                }
                _ => {
                    if off < last {
                        bad = Some(format!("read at offset {off} after a read at {last} in the same attempt (attempt start {start})"));
                    }
                    if off < start {
                        bad = Some(format!("read at offset {off} before the attempt start {start}"));
                    }
                    last = off;
                    far = far.max(off.saturating_add(size.max(1)) - 1);
                    reads += 1;
                }
            }
        }
        if reads > 0 {
            finish(reads, start, far, &mut bad, &mut self.max_ratio);
        }
        if let Some(m) = bad {
            self.complain("BACKTRACK", input, format!("[{name}] {m}"), json!({}));
        }
    }

    /// C07: every split point and chunking schedule
    fn check_partial(&mut self, input: &[u8], cuts: &[usize]) {
        let d = self.def;
        let is_str = d.is_str();
        let oneshot = d.reflex().run(input);
        // legal buffer ends: symbol boundaries (char boundaries in str mode), every byte in byte mode
        let points: Vec<usize> = if is_str { cuts.to_vec() } else { (0..=input.len()).collect() };
        let mut buf = std::mem::take(&mut self.b_x);
        for be in [0u8, 1] {
            let name = if be == 0 { "tailcall" } else { "state_machine" };
            for &k in &points {
                self.bump("split_points");
                let boxed: Box<[u8]> = input[..k].to_vec().into_boxed_slice();
                real(d.e.idx, be, &Req { input: &boxed, partial: true, trace: false }, &mut buf);
                self.runs += 1;
                let r = to_run(&buf);
                let model = d.e.graph.run(&input[..k], is_str, true);
                if r.items != model.items || r.end_pos != model.end_pos {
                    self.complain("BINDING", input, format!("[{name}] partial lexer over the first {k} bytes yields {:?} (stops at {}), the graph interpreter predicts {:?} (stops at {})", r.items, r.end_pos, model.items, model.end_pos), json!({"split": k}));
                    continue;
                }
                let n = r.items.len();
                if n > oneshot.items.len() || r.items[..] != oneshot.items[..n] {
                    self.complain("PARTIAL-COMMIT", input, format!("[{name}] partial lexer over the first {k} bytes commits {:?}, one-shot lexing gives {:?}", r.items, oneshot.items), json!({"split": k}));
                    continue;
                }
                if buf.end_start != buf.end_pos {
                    self.complain("PARTIAL-SPAN", input, format!("[{name}] at None the span is {}..{} (must be empty)", buf.end_start, buf.end_pos), json!({"split": k}));
                }
                // from the reported position, lexing S reproduces the remaining items
                let pos = r.end_pos;
                if pos > k || (is_str && std::str::from_utf8(&input[pos..]).is_err()) {
                    self.complain("PARTIAL-POS", input, format!("[{name}] position {pos} at None is not a legal restart point (split {k})"), json!({"split": k}));
                    continue;
                }
                let rest = d.reflex().run(&input[pos..]);
                let shifted: Vec<Item> = rest.items.iter().map(|i| match *i { Item::Tok(l, s, e) => Item::Tok(l, s + pos, e + pos), Item::Err(s, e) => Item::Err(s + pos, e + pos) }).collect();
                if shifted[..] != oneshot.items[n..] {
                    self.complain("PARTIAL-RESUME", input, format!("[{name}] split {k}: committed {:?}, restart at {pos} gives {:?}, one-shot {:?}", r.items, shifted, oneshot.items), json!({"split": k}));
                }
            }
            // chunking schedules through the documented loop
            let inner: Vec<usize> = points.iter().copied().filter(|&p| p > 0 && p < input.len()).collect();
            let scheds: Vec<Vec<usize>> = if inner.len() <= 4 {
                (0..(1usize << inner.len())).map(|m| inner.iter().enumerate().filter(|(i, _)| m >> i & 1 == 1).map(|(_, p)| *p).collect()).collect()
            } else {
                let mut v: Vec<Vec<usize>> = inner.iter().map(|p| vec![*p]).collect();
                for (i, a) in inner.iter().enumerate() {
                    for b in inner.iter().skip(i + 1) {
                        v.push(vec![*a, *b]);
                    }
                }
                v.push(inner.clone());
                v
            };
            for sched in scheds {
                self.bump("chunk_schedules");
                let mut pos = 0usize;
                let mut got: Vec<Item> = vec![];
                let mut ok = true;
                for stage in 0..=sched.len() {
                    let last = stage == sched.len();
                    let end = if last { input.len() } else { sched[stage] };
                    if end < pos {
                        continue;
                    }
                    let boxed: Box<[u8]> = input[pos..end].to_vec().into_boxed_slice();
                    real(d.e.idx, be, &Req { input: &boxed, partial: !last, trace: false }, &mut buf);
                    self.runs += 1;
                    if buf.flags != 0 {
                        ok = false;
                        break;
                    }
                    for &(id, s, e) in &buf.items {
                        let (s, e) = (s as usize + pos, e as usize + pos);
                        got.push(if id < 0 { Item::Err(s, e) } else { Item::Tok(id as usize, s, e) });
                    }
                    pos += buf.end_pos as usize;
                }
                if !ok || got != oneshot.items {
                    self.complain("CHUNKED", input, format!("[{name}] feeding the input in chunks cut at {sched:?} gives {:?}, one-shot {:?}", got, oneshot.items), json!({"schedule": sched}));
                }
            }
        }
        self.b_x = buf;
    }
}

fn tier_params(tier: &str, prop: &str) -> (usize, usize, usize) {
    // (alphabet size, L, loop max_n)
    match (tier, prop) {
        ("thorough", "C07") => (7, 5, 18),
        ("thorough", _) => (10, 5, 26),
        (_, "C07") => (6, 4, 10),
        _ => (8, 4, 18),
    }
}

pub fn layer2(args: &Args, defs: &[Def], rep: &mut Report) {
    let prop = args.prop.as_str();
    let (amax, l, loopn) = tier_params(&args.tier, prop);
    rep.bounds.insert("layer2".into(), format!("compiled sub-corpus of {} lexers x both code generators; per definition: all strings of <= {l} symbols over a representative alphabet of <= {amax} symbols (joint behaviour classes + multi-byte characters), transition cover of the graph x all 256 next bytes, loop inputs up to {loopn} repetitions; build: {}", defs.len(), rep.engine));
    let by_name: BTreeMap<&str, &Def> = defs.iter().map(|d| (d.e.name.as_str(), d)).collect();
    let results: Vec<(Vec<Violation>, u64, u64, BTreeMap<&'static str, u64>, usize, f64, serde_json::Value)> = defs
        .par_iter()
        .filter(|d| args.only.map_or(true, |o| o == d.e.idx))
        .filter(|d| match prop {
            // the literal / ignore(case) samples, and every other definition that carries the flag
            "C10" => d.e.name.starts_with("c10_") || d.e.spec.pats.iter().any(|p| p.icase),
            "C11" => d.e.name.starts_with("c11_") || d.e.name.starts_with("subpat"),
            _ => true,
        })
        .map(|d| {
            let twin = if prop == "C12" { by_name.get(format!("{}__b", d.e.name).as_str()).copied() } else { None };
            let mut cx = Ctx::new(prop, d, twin);
            if prop == "C12" && (twin.is_none() || !d.is_str()) {
                return (vec![], 0, 0, BTreeMap::new(), 0, 0.0, json!(null));
            }
            let alpha: Vec<Sym> = if prop == "C12" {
                // valid UTF-8 symbols only
                inputs::alphabet(d, amax)
            } else {
                inputs::alphabet(d, amax)
            };
            let mut sample = json!(null);
            if prop == "C05V" {
                // reduced family for the memory-checker pass: batch-boundary loop inputs and short strings
                cx.dump = Some(vec![]);
                inputs::strings(&alpha, 2, &mut |s, _| cx.check_input(s));
                for s in inputs::loop_inputs(d, &alpha, 26) {
                    cx.check_input(&s);
                }
                let mut v = cx.dump.take().unwrap();
                v.sort();
                v.dedup();
                let n = v.len() as u64;
                return (vec![], 0, n, BTreeMap::new(), 0, 0.0, json!({"idx": d.e.idx, "is_str": d.is_str(), "inputs": v.iter().map(|x| vcore::hex(x)).collect::<Vec<_>>()}));
            } else if prop == "C07" {
                inputs::strings(&alpha, l, &mut |s, cuts| cx.check_partial(s, cuts));
                for s in inputs::loop_inputs(d, &alpha, loopn).into_iter().filter(|s| s.len() <= 14).take(400) {
                    let cuts: Vec<usize> = if d.is_str() { (0..=s.len()).filter(|&i| std::str::from_utf8(&s[..i]).is_ok() && std::str::from_utf8(&s[i..]).is_ok()).collect() } else { (0..=s.len()).collect() };
                    cx.check_partial(&s, &cuts);
                }
            } else {
                inputs::strings(&alpha, l, &mut |s, _| cx.check_input(s));
                for s in inputs::transition_cover(d, &alpha) {
                    cx.check_input(&s);
                }
                for s in inputs::loop_inputs(d, &alpha, loopn) {
                    cx.check_input(&s);
                }
                if prop == "C20" {
                    // adversarial: long runs without the closing symbol
                    for x in alpha.iter() {
                        for n in [32usize, 64] {
                            let s: Vec<u8> = std::iter::repeat(x.clone()).take(n).flatten().collect();
                            cx.check_input(&s);
                        }
                    }
                }
            }
            if d.e.idx % 23 == 1 {
                sample = json!({"definition": d.e.spec.short(), "alphabet": alpha.iter().map(|s| vcore::show(s)).collect::<Vec<_>>(), "inputs": cx.inputs, "real_runs": cx.runs});
            }
            cx.counts.insert("distinct_nontrivial", cx.nontrivial);
            (cx.viol, cx.runs, cx.inputs, cx.counts, alpha.len(), cx.max_ratio, sample)
        })
        .collect();
    let mut max_ratio = 0.0f64;
    for (v, runs, inputs, counts, _alen, ratio, sample) in results {
        rep.count("programs", 1);
        rep.count("traces_validated_against_impl", runs);
        rep.count("evaluations", runs);
        rep.count("layer2_inputs", inputs);
        for (k, n) in counts {
            rep.count(k, n);
        }
        rep.violations.extend(v);
        max_ratio = max_ratio.max(ratio);
        if prop == "C05V" {
            rep.samples.push(sample);
        } else if !sample.is_null() && rep.samples.len() < 5 {
            rep.samples.push(sample);
        }
    }
    if prop == "C20" {
        rep.notes.push(format!("largest observed reads / bytes-examined ratio within one attempt: {max_ratio:.3}"));
        rep.observe("max_read_ratio_x1000", (max_ratio * 1000.0) as u64);
    }
}

/// C05 (1): Source::read on str and [u8], every len, offset and chunk size. Each (source kind,
/// len) batch runs in a child process so that a crash caused by an out-of-bounds access is
/// attributed to its batch instead of killing the sweep.
pub fn read_probe(args: &Args, rep: &mut Report) {
    let exe = std::env::current_exe().expect("current exe");
    for as_str in [true, false] {
        for len in 0..=40usize {
            let out = std::process::Command::new(&exe)
                .args(["readprobe-child", "--prop", &args.prop, "--file", &format!("{},{}", as_str as u8, len)])
                .output()
                .expect("spawn child");
            let kind = if as_str { "str" } else { "[u8]" };
            if !out.status.success() {
                rep.count("evaluations", 1);
                rep.violations.push(Violation {
                    key: format!("READ-CRASH/{kind}/{len}"),
                    tag: "READ-CRASH".into(),
                    case: format!("Source::read sweep on a {kind} of length {len}"),
                    detail: format!("the probe process died ({:?}): an out-of-bounds read was performed; stderr: {}", out.status, String::from_utf8_lossy(&out.stderr).chars().take(300).collect::<String>()),
                    replay: json!({"kind": "readprobe", "as_str": as_str, "len": len, "tag": "READ-CRASH"}),
                });
                continue;
            }
            let child: Report = serde_json::from_slice(&out.stdout).expect("child report");
            rep.merge(child);
        }
    }
}

pub fn read_probe_child(args: &Args, rep: &mut Report) {
    let spec = args.file.clone().expect("--file as_str,len");
    let (a, l) = spec.split_once(',').unwrap();
    let as_str = a == "1";
    let len: usize = l.parse().unwrap();
    // 0 = the one-byte chunk `u8`, 100 = the zero-sized chunk `&[u8; 0]`, otherwise `&[u8; n]`
    let sizes = [0usize, 100, 1, 2, 3, 4, 7, 8, 9, 16, 32];
    let mut evals = 0u64;
    let mut nontrivial = 0u64;
    let src: Vec<u8> = (0..len).map(|i| b'a' + (i % 26) as u8).collect();
    let boxed = src.clone().into_boxed_slice();
    let mut offsets: Vec<usize> = (0..=len + 2).collect();
    offsets.extend(usize::MAX - 40..=usize::MAX);
    offsets.extend([usize::MAX / 2, usize::MAX / 2 + 1, 1usize << 63, (1usize << 63) - 1, 1usize << 32]);
    for &off in &offsets {
        for &n in &sizes {
            let size = if n == 100 { 0 } else { n.max(1) };
            evals += 1;
            let want: Option<Vec<u8>> = match off.checked_add(size) {
                Some(end) if end <= len => Some(src[off..end].to_vec()),
                _ => None,
            };
            // within +-1 of the boundary or overflowing: non-trivial
            let near = off.checked_add(size).map_or(true, |e| (e as i128 - len as i128).abs() <= 1);
            if near {
                nontrivial += 1;
            }
            let got = std::panic::catch_unwind(|| vrt_api::read_probe(&boxed, as_str, off, n));
            let bad = match &got {
                Ok(g) => *g != want,
                Err(_) => true,
            };
            if bad && rep.violations.len() < 3 {
                rep.violations.push(Violation {
                    key: format!("READ/{}/{len}/{off}/{n}", if as_str { "str" } else { "bytes" }),
                    tag: "READ".into(),
                    case: format!("Source::read::<{}>({off}) on a {} of length {len}", if n == 0 { "u8".to_string() } else { format!("&[u8; {}]", if n == 100 { 0 } else { n }) }, if as_str { "str" } else { "[u8]" }),
                    detail: format!("expected {want:?}, got {}", match got { Ok(g) => format!("{g:?}"), Err(_) => "a panic".into() }),
                    replay: json!({"kind": "readprobe", "as_str": as_str, "len": len, "offset": off.to_string(), "n": n, "tag": "READ"}),
                });
            }
        }
    }
    rep.count("evaluations", evals);
    rep.count("distinct_nontrivial", nontrivial);
}

pub fn replay(args: &Args, defs: &[Def], rep: &mut Report) {
    let text = std::fs::read_to_string(args.file.as_ref().expect("--file")).expect("replay file");
    let rec: serde_json::Value = serde_json::from_str(&text).expect("json");
    let r = &rec["replay"];
    let tag = r["tag"].as_str().unwrap_or("");
    if r["kind"] == "readprobe" {
        let mut tmp = Report::new(&args.prop, "vrt", &args.tier);
        read_probe(args, &mut tmp);
        rep.violations = tmp.violations.into_iter().filter(|v| v.tag == tag || (tag.starts_with("READ") && v.tag.starts_with("READ"))).take(1).collect();
        return;
    }
    let spec: vcore::spec::Spec = serde_json::from_value(r["spec"].clone()).expect("spec");
    let Some(d) = defs.iter().find(|d| d.e.spec == spec) else {
        rep.notes.push("definition not in the compiled corpus of this tree".into());
        return;
    };
    let prop = r["prop"].as_str().unwrap_or(&args.prop).to_string();
    let by_name: BTreeMap<&str, &Def> = defs.iter().map(|d| (d.e.name.as_str(), d)).collect();
    let twin = by_name.get(format!("{}__b", d.e.name).as_str()).copied();
    let input = vcore::unhex(r["input_hex"].as_str().unwrap_or(""));
    let mut cx = Ctx::new(&prop, d, twin);
    if prop == "C07" {
        let cuts: Vec<usize> = if d.is_str() { (0..=input.len()).filter(|&i| std::str::from_utf8(&input[..i]).is_ok() && std::str::from_utf8(&input[i..]).is_ok()).collect() } else { (0..=input.len()).collect() };
        cx.check_partial(&input, &cuts);
    } else {
        cx.check_input(&input);
    }
    rep.violations = cx.viol.into_iter().filter(|v| v.tag == tag).collect();
}


/// Memory-checker pass: run the compiled lexers (both back ends) on recorded inputs, each copied
/// into an exactly sized heap allocation. No reference, no model: memcheck is the monitor.
pub fn rawrun(args: &Args, rep: &mut Report) {
    let text = std::fs::read_to_string(args.file.as_ref().expect("--file")).expect("inputs file");
    let v: serde_json::Value = serde_json::from_str(&text).expect("json");
    let mut buf = RunBuf::default();
    let mut runs = 0u64;
    let mut flagged = 0u64;
    for d in v["samples"].as_array().expect("samples") {
        let idx = d["idx"].as_u64().unwrap() as usize;
        rep.count("programs", 1);
        for h in d["inputs"].as_array().unwrap() {
            let input = vcore::unhex(h.as_str().unwrap());
            let boxed: Box<[u8]> = input.into_boxed_slice();
            for be in [0u8, 1] {
                real(idx, be, &Req { input: &boxed, partial: false, trace: false }, &mut buf);
                runs += 1;
                if buf.flags != 0 {
                    flagged += 1;
                }
            }
            // and as a prefix buffer (partial mode reads differ at the buffer end)
            real(idx, 0, &Req { input: &boxed, partial: true, trace: false }, &mut buf);
            runs += 1;
        }
    }
    rep.count("traces_validated_against_impl", runs);
    rep.count("evaluations", runs);
    rep.count("memcheck_runs", runs);
    rep.observe("runs_with_flags", flagged);
}


/// C06 stack bound. For every definition: find the smallest stack (64 KiB, 1 MiB, 16 MiB) on which
/// the state-machine lexer handles a 64-byte input (the frame of the single big `lex` function is
/// large but constant in unoptimised builds), then the whole ladder of lengths must run on twice
/// that stack. One child process per attempt: a stack overflow kills only the child.
pub fn stack(args: &Args, rep: &mut Report) {
    let exe = std::env::current_exe().expect("current exe");
    let text = std::fs::read_to_string(&args.corpus).expect("corpus.json");
    let entries: Vec<crate::Entry> = serde_json::from_str(&text).expect("corpus json");
    let ladder = if args.tier == "thorough" { "1024,16384,262144,4194304" } else { "1024,16384,262144" };
    rep.bounds.insert("stack_ladder".into(), format!("input lengths {ladder} bytes (a geometric ladder, NOT an exhaustive range) x up to 3 alphabet symbols per definition; state-machine lexer on a thread whose stack is twice the smallest of 64 KiB / 1 MiB / 16 MiB that handles a 64-byte input; a symbol's ladder stops early when the (inherently quadratic) maximal-munch rescans make a step slower than 2 s; build {}", rep.engine));
    let child = |idx: usize, ladder: &str, stack: usize| -> ChildEnd {
        let a: Vec<String> = ["stack-child", "--prop", &args.prop, "--corpus", &args.corpus, "--only", &idx.to_string(), "--file", &format!("{stack}:{ladder}")].iter().map(|x| x.to_string()).collect();
        run_child_limited(&exe, &a, if args.tier == "thorough" { 600 } else { 150 }, "1")
    };
    // (a change that makes every ladder time out would otherwise cost one time limit per definition:
    // once a few definitions have failed the remaining ones are not run any more)
    let failed = std::sync::atomic::AtomicUsize::new(0);
    let results: Vec<(usize, Option<usize>, Option<ChildEnd>)> = entries
        .par_iter()
        .map(|e| {
            if failed.load(std::sync::atomic::Ordering::Relaxed) >= 4 {
                return (e.idx, Some(0), None);
            }
            let mut base = None;
            for s in [64usize << 10, 1 << 20, 16 << 20] {
                if matches!(child(e.idx, "64", s), ChildEnd::Ok(_)) {
                    base = Some(s);
                    break;
                }
            }
            match base {
                None => {
                    failed.fetch_add(1, std::sync::atomic::Ordering::Relaxed);
                    (e.idx, None, None)
                }
                Some(s) => {
                    let end = child(e.idx, ladder, 2 * s);
                    if !matches!(end, ChildEnd::Ok(_)) {
                        failed.fetch_add(1, std::sync::atomic::Ordering::Relaxed);
                    }
                    (e.idx, Some(s), Some(end))
                }
            }
        })
        .collect();
    let skipped = results.iter().filter(|r| r.1 == Some(0)).count();
    if skipped > 0 {
        rep.notes.push(format!("{skipped} definitions were not run: four ladders had already failed"));
    }
    for (idx, base, out) in results {
        let e = &entries[idx];
        let fail = |rep: &mut Report, what: String| {
            rep.count("evaluations", 1);
            rep.violations.push(Violation {
                key: format!("STACK/{}", e.spec.short()),
                tag: "STACK".into(),
                case: format!("{} {}", e.name, e.spec.short()),
                detail: what,
                replay: json!({"kind": "stack", "name": e.name, "spec": e.spec, "ladder": ladder, "tag": "STACK"}),
            });
        };
        let Some(base) = base else {
            fail(rep, "the state-machine lexer overflows a 16 MiB stack on a 64-byte input".into());
            continue;
        };
        if base == 0 {
            continue;
        }
        rep.observe(&format!("base_stack_{}KiB", base >> 10), 1);
        match out.unwrap() {
            ChildEnd::Ok(child) => rep.merge(child),
            ChildEnd::Died(w) => fail(rep, format!("the state-machine lexer handles a 64-byte input on a {} KiB stack but dies on longer inputs with twice that stack ({w}): stack use grows with the input", base >> 10)),
            ChildEnd::TimedOut => fail(rep, "the state-machine lexer did not finish the ladder within the time limit".into()),
        }
    }
}

pub fn stack_child(args: &Args, defs: &[Def], rep: &mut Report) {
    let spec = args.file.clone().expect("stack:ladder");
    let (st, lad) = spec.split_once(':').expect("stack:ladder");
    let stack: usize = st.parse().unwrap();
    let ladder: Vec<usize> = lad.split(',').map(|x| x.parse().unwrap()).collect();
    for d in defs {
        let alpha = inputs::alphabet(d, 6);
        rep.count("programs", 1);
        for x in alpha.iter().take(3) {
            for &n in &ladder {
                let t0 = std::time::Instant::now();
                let input: Vec<u8> = std::iter::repeat(x.clone()).take(n / x.len().max(1)).flatten().collect();
                let exp = d.reflex().run(&input);
                let idx = d.e.idx;
                let inp = input.clone();
                let h = std::thread::Builder::new()
                    .stack_size(stack)
                    .spawn(move || {
                        let mut buf = RunBuf::default();
                        real(idx, 1, &Req { input: &inp, partial: false, trace: false }, &mut buf);
                        (buf.items.len(), buf.end_pos, buf.flags)
                    })
                    .expect("spawn");
                let (n_items, end_pos, flags) = h.join().expect("lexer thread panicked");
                rep.count("evaluations", 1);
                rep.count("traces_validated_against_impl", 1);
                let shape = if exp.items.len() == 1 && exp.skips.is_empty() {
                    "one_long_token"
                } else if exp.skips.len() * 2 >= input.len().max(1) {
                    "many_consecutive_skips"
                } else if exp.items.iter().filter(|i| matches!(i, Item::Err(..))).count() * 2 >= input.len().max(1) / x.len().max(1) {
                    "many_errors"
                } else if exp.items.len() > 1 {
                    "many_tokens"
                } else {
                    "other"
                };
                rep.observe(&format!("stack_shape:{shape}"), 1);
                if n > 1024 {
                    rep.count("distinct_nontrivial", 1);
                }
                if n_items != exp.items.len() || end_pos as usize != exp.end_pos || flags != 0 {
                    rep.violations.push(Violation {
                        key: format!("STACK-RESULT/{}", d.e.spec.short()),
                        tag: "STACK-RESULT".into(),
                        case: format!("{} {}", d.e.name, d.e.spec.short()),
                        detail: format!("{} x {n} bytes: {n_items} items end {end_pos} flags {flags}, reference {} items end {}", vcore::show(x), exp.items.len(), exp.end_pos),
                        replay: json!({"kind": "stack", "name": d.e.name, "spec": d.e.spec, "ladder": n.to_string(), "tag": "STACK-RESULT"}),
                    });
                }
                if t0.elapsed().as_millis() > 125 {
                    // the next step is 16x longer; quadratic rescanning would take too long
                    rep.observe("ladders_cut_short_by_time", 1);
                    break;
                }
            }
        }
    }
}


/// run a child with a wall-clock limit; its report goes through a file (no pipe to fill up)
pub enum ChildEnd {
    Ok(Report),
    Died(String),
    TimedOut,
}

pub fn run_child_limited(exe: &std::path::Path, args: &[String], secs: u64, threads: &str) -> ChildEnd {
    static N: std::sync::atomic::AtomicUsize = std::sync::atomic::AtomicUsize::new(0);
    let id = N.fetch_add(1, std::sync::atomic::Ordering::SeqCst);
    let out = std::env::temp_dir().join(format!("vrt-child-{}-{id}.json", std::process::id()));
    let errf = std::env::temp_dir().join(format!("vrt-child-{}-{id}.err", std::process::id()));
    let _ = std::fs::remove_file(&out);
    let mut cmd = std::process::Command::new(exe);
    cmd.args(args).arg("--out").arg(&out);
    cmd.env("RAYON_NUM_THREADS", threads);
    cmd.stdout(std::process::Stdio::null());
    cmd.stderr(std::fs::File::create(&errf).expect("stderr file"));
    let mut child = cmd.spawn().expect("spawn child");
    let t0 = std::time::Instant::now();
    let status = loop {
        match child.try_wait().expect("wait") {
            Some(st) => break Some(st),
            None => {
                if t0.elapsed().as_secs() >= secs {
                    let _ = child.kill();
                    let _ = child.wait();
                    break None;
                }
                std::thread::sleep(std::time::Duration::from_millis(40));
            }
        }
    };
    let err = std::fs::read_to_string(&errf).unwrap_or_default();
    let _ = std::fs::remove_file(&errf);
    let res = match status {
        None => ChildEnd::TimedOut,
        Some(st) if st.success() => match std::fs::read(&out).ok().and_then(|b| serde_json::from_slice::<Report>(&b).ok()) {
            Some(r) => ChildEnd::Ok(r),
            None => ChildEnd::Died(format!("no report; {}", err.lines().filter(|l| !l.trim().is_empty()).take(3).collect::<Vec<_>>().join(" | "))),
        },
        Some(st) => ChildEnd::Died(format!("{st:?}: {}", err.lines().filter(|l| !l.trim().is_empty() && !l.starts_with("vrt ")).take(3).collect::<Vec<_>>().join(" | "))),
    };
    let _ = std::fs::remove_file(&out);
    res
}

/// Parent of a Layer-2 run: the corpus is split over child processes, each with a wall-clock
/// limit, so that a compiled lexer that crashes the process (stack overflow from endless restarts,
/// an abort, a segfault in the unchecked build) or never returns is attributed to its definition
/// instead of killing or hanging the whole sweep.
pub fn layer2_sharded(args: &Args, rep: &mut Report) {
    let exe = std::env::current_exe().expect("exe");
    let text = std::fs::read_to_string(&args.corpus).expect("corpus.json");
    let entries: Vec<crate::Entry> = serde_json::from_str(&text).expect("corpus json");
    let n = 16usize;
    let (shard_secs, single_secs) = if args.tier == "thorough" { (3600, 600) } else { (150, 40) };
    let base: Vec<String> = ["layer2", "--prop", &args.prop, "--tier", &args.tier, "--corpus", &args.corpus, "--seed", &args.seed.to_string()].iter().map(|x| x.to_string()).collect();
    let with = |extra: [String; 2]| {
        let mut v = base.clone();
        v.extend(extra);
        v
    };
    let outs: Vec<(usize, ChildEnd)> = (0..n).into_par_iter().map(|i| (i, run_child_limited(&exe, &with(["--shard".into(), format!("{i}/{n}")]), shard_secs, "2"))).collect();
    for (i, end) in outs {
        let why = match end {
            ChildEnd::Ok(child) => {
                let b = child.bounds.clone();
                rep.merge(child);
                for (k, v) in b {
                    rep.bounds.entry(k).or_insert(v);
                }
                continue;
            }
            ChildEnd::Died(w) => format!("died ({w})"),
            ChildEnd::TimedOut => format!("did not finish within {shard_secs} s"),
        };
        // the shard failed: find the definitions responsible, one child per definition
        // (once a few definitions have been located the remaining ones are not narrowed any more:
        // the verdict is already a violation and every further hang costs the full time limit)
        if rep.violations.iter().filter(|v| v.tag == "HANG" || v.tag == "CRASH").count() >= 4 {
            rep.notes.push(format!("shard {i} {why}; not narrowed to single definitions because enough failing definitions are already located"));
            continue;
        }
        let members: Vec<&crate::Entry> = entries.iter().filter(|e| e.idx % n == i).collect();
        let found = std::sync::atomic::AtomicUsize::new(0);
        let singles: Vec<(usize, ChildEnd)> = members
            .par_iter()
            .filter_map(|e| {
                if found.load(std::sync::atomic::Ordering::Relaxed) >= 4 {
                    return None;
                }
                let end = run_child_limited(&exe, &with(["--only".into(), e.idx.to_string()]), single_secs, "1");
                if !matches!(end, ChildEnd::Ok(_)) {
                    found.fetch_add(1, std::sync::atomic::Ordering::Relaxed);
                }
                Some((e.idx, end))
            })
            .collect();
        let mut located = false;
        for (idx, end) in singles {
            let e = &entries[idx];
            let (tag, detail) = match end {
                ChildEnd::Ok(child) => {
                    rep.merge(child);
                    continue;
                }
                ChildEnd::Died(w) => ("CRASH", format!("replaying the enumerated inputs on the compiled lexer killed the process: {w}")),
                ChildEnd::TimedOut => ("HANG", format!("replaying the enumerated inputs on the compiled lexer did not finish within {single_secs} s: some next() call never returns")),
            };
            located = true;
            rep.count("programs", 1);
            rep.violations.push(Violation {
                key: format!("{tag}/{}", e.spec.short()),
                tag: tag.into(),
                case: format!("{} {}", e.name, e.spec.short()),
                detail,
                replay: json!({"kind": "layer2-crash", "prop": args.prop, "name": e.name, "spec": e.spec, "tag": tag}),
            });
        }
        if !located {
            panic!("shard {i} {why} but no single definition reproduces the failure");
        }
    }
}
