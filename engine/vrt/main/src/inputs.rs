//! Input families for Layer 2 (DESIGN.md 2.4): all strings up to L symbols over a per-definition
//! representative alphabet, the transition cover x 256 next bytes, and batch-boundary loop inputs.
use crate::Def;
use std::collections::{BTreeMap, BTreeSet};
use vcore::utf8;

/// One symbol = a byte sequence (a whole character in str mode).
pub type Sym = Vec<u8>;

fn non_ascii_chars_of(def: &Def) -> Vec<char> {
    let mut v: BTreeSet<char> = BTreeSet::new();
    let mut add_text = |t: &str| {
        for c in t.chars() {
            if !c.is_ascii() {
                v.insert(c);
            }
        }
    };
    for p in &def.e.spec.pats {
        if let vcore::spec::Lit::Str(s) = &p.lit {
            add_text(s);
        }
    }
    for (_, l) in &def.e.spec.subpatterns {
        if let vcore::spec::Lit::Str(s) = l {
            add_text(s);
        }
    }
    v.into_iter().collect()
}

/// Representative alphabet: one byte per joint behaviour class of (reference, graph), preferring
/// printable representatives and live symbols, plus multi-byte characters.
pub fn alphabet(def: &Def, max: usize) -> Vec<Sym> {
    let ra = &def.info.ra;
    let g = &def.e.graph;
    // behaviour signature per reference class
    let mut by_sig: BTreeMap<Vec<usize>, Vec<u8>> = BTreeMap::new();
    for (ci, &rep) in ra.classes.iter().enumerate() {
        if def.is_str() && rep >= 0x80 {
            continue;
        }
        let mut sig: Vec<usize> = Vec::with_capacity(ra.nstates() + g.states.len());
        for s in 0..ra.nstates() {
            let (m, nx) = &ra.trans[s][ci];
            sig.push(*nx);
            sig.push(m.iter().fold(0usize, |a, x| a * 31 + x + 1));
        }
        for s in 0..g.states.len() {
            sig.push(g.edge(s, rep).map_or(usize::MAX, |t| t));
        }
        by_sig.entry(sig).or_default().push(rep);
    }
    let mut live: Vec<Sym> = vec![];
    let mut dead: Vec<Sym> = vec![];
    for (_, reps) in by_sig {
        // prefer a printable representative
        let rep = reps.iter().copied().find(|b| b.is_ascii_graphic() || *b == b' ').unwrap_or(reps[0]);
        let is_live = (0..g.states.len()).any(|s| g.edge(s, rep).is_some());
        if is_live { live.push(vec![rep]) } else { dead.push(vec![rep]) }
    }
    let mut multi: Vec<Sym> = vec![];
    let mut chars = non_ascii_chars_of(def);
    // neighbours of the characters in the patterns, then fixed 2/3/4-byte characters
    let extra: Vec<char> = chars.iter().flat_map(|c| [char::from_u32(*c as u32 + 1), char::from_u32((*c as u32).saturating_sub(1))]).flatten().filter(|c| !c.is_ascii()).collect();
    chars.extend(extra);
    chars.extend(['é', '€', '😊', 'α']);
    let mut seen = BTreeSet::new();
    for c in chars {
        if seen.insert(c) {
            multi.push(c.to_string().into_bytes());
        }
    }
    // keep multi-byte symbols with distinct behaviour from the root (cheap approximation: distinct
    // sequence of reference states from the start state and of graph states from every state)
    let mut msig_seen = BTreeSet::new();
    multi.retain(|m| {
        let mut sig = vec![];
        let mut s = 0usize;
        for &b in m {
            s = ra.trans[s][ra.class_of[b as usize]].1;
            sig.push(s);
        }
        for st in 0..g.states.len() {
            let mut cur = Some(st);
            for &b in m {
                cur = cur.and_then(|c| g.edge(c, b));
            }
            sig.push(cur.unwrap_or(usize::MAX));
        }
        msig_seen.insert(sig)
    });
    let mut out: Vec<Sym> = vec![];
    let n_multi = multi.len().min(if max >= 10 { 4 } else { 3 });
    let room = max.saturating_sub(n_multi + dead.len().min(1));
    out.extend(live.into_iter().take(room));
    out.extend(dead.into_iter().take(1.max(max.saturating_sub(out.len() + n_multi))));
    out.extend(multi.into_iter().take(n_multi));
    out.truncate(max.max(2));
    out
}

/// all strings of at most `l` symbols, as (bytes, symbol boundaries)
pub fn strings(alpha: &[Sym], l: usize, f: &mut dyn FnMut(&[u8], &[usize])) {
    fn rec(alpha: &[Sym], l: usize, buf: &mut Vec<u8>, cuts: &mut Vec<usize>, f: &mut dyn FnMut(&[u8], &[usize])) {
        f(buf, cuts);
        if cuts.len() - 1 == l {
            return;
        }
        for s in alpha {
            let n = buf.len();
            buf.extend_from_slice(s);
            cuts.push(buf.len());
            rec(alpha, l, buf, cuts, f);
            cuts.pop();
            buf.truncate(n);
        }
    }
    let mut buf = vec![];
    let mut cuts = vec![0usize];
    rec(alpha, l, &mut buf, &mut cuts, f);
}

/// Transition cover x 256: for every reachable graph state its shortest access string, extended
/// by every next byte (every byte that keeps a str input a valid prefix, completed minimally),
/// and additionally by one more symbol of `tail`.
pub fn transition_cover(def: &Def, tail: &[Sym]) -> Vec<Vec<u8>> {
    let g = &def.e.graph;
    let is_str = def.is_str();
    let acc = vcore::product::access_strings(g, is_str);
    let mut out: Vec<Vec<u8>> = vec![];
    for a in acc.into_iter().flatten() {
        let (path, u) = a;
        // the access string itself, completed
        let mut base = path.clone();
        if is_str {
            base.extend_from_slice(utf8::completion(u));
        }
        out.push(base);
        for b in 0..=255u8 {
            let u2 = if is_str { utf8::step(u, b) } else { 0 };
            if u2 == utf8::DEAD {
                continue;
            }
            let mut s = path.clone();
            s.push(b);
            if is_str {
                s.extend_from_slice(utf8::completion(u2));
            }
            for t in tail.iter().take(3) {
                let mut s2 = s.clone();
                s2.extend_from_slice(t);
                out.push(s2);
            }
            out.push(s);
        }
    }
    out
}

/// Inputs that cross the 8-byte batch of the fast loop in every phase: for every symbol x that
/// some self-loop accepts, access(loop state) + x^n (n = 0..=max_n) + every exit symbol at the end
/// and, for short runs, at every position.
pub fn loop_inputs(def: &Def, alpha: &[Sym], max_n: usize) -> Vec<Vec<u8>> {
    let g = &def.e.graph;
    let is_str = def.is_str();
    let acc = vcore::product::access_strings(g, is_str);
    let mut out = vec![];
    for (si, st) in g.states.iter().enumerate() {
        let Some((rs, _)) = st.normal.iter().find(|(_, t)| *t == si) else { continue };
        let Some((path, u)) = &acc[si] else { continue };
        if is_str && *u != utf8::BOUNDARY {
            continue; // loop inside a character: covered by the multi-byte symbols below
        }
        // loop symbols: single bytes of the self edge (ASCII in str mode)
        let mut xs: Vec<Sym> = vec![];
        for &(lo, hi) in rs {
            for b in [lo, hi] {
                if !is_str || b < 0x80 {
                    xs.push(vec![b]);
                }
            }
        }
        xs.truncate(3);
        for x in &xs {
            for n in 0..=max_n {
                let mut s = path.clone();
                for _ in 0..n {
                    s.extend_from_slice(x);
                }
                out.push(s.clone());
                for e in alpha {
                    let mut t = s.clone();
                    t.extend_from_slice(e);
                    out.push(t.clone());
                    t.extend_from_slice(x);
                    out.push(t.clone());
                    // a long tail after the run: the run ends inside a chunk that is completely
                    // inside the input (chunked reads of 8 / 16 bytes)
                    if n % 3 == 2 || n == 0 || n == 16 {
                        for _ in 0..17 {
                            t.extend_from_slice(x);
                        }
                        out.push(t);
                    }
                }
            }
        }
    }
    // multi-byte loops: any alphabet symbol repeated
    for x in alpha.iter().filter(|s| s.len() > 1) {
        for n in 1..=max_n.min(12) {
            let mut s = vec![];
            for _ in 0..n {
                s.extend_from_slice(x);
            }
            out.push(s.clone());
            if let Some(e) = alpha.first() {
                s.extend_from_slice(e);
                out.push(s);
            }
        }
    }
    out
}
