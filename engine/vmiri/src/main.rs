//! C05 supplement: the default (unsafe) runtime under MIRI on a small exhaustive family - every
//! string of <= 3 symbols plus loop inputs of every length 0..=20 around the 8-byte batch, through
//! three real-derive lexers (fast loop, jump table, multi-byte classes) in ordinary and partial
//! mode, each input in an exactly sized heap allocation. Miri makes any out-of-bounds or invalid
//! pointer use an error; the deciding step is the enumeration.
use logos::{Lexer, Logos};

#[derive(Logos, Debug, PartialEq, Clone, Copy)]
#[logos(skip " +")]
enum A {
    #[regex("[a-z]+")]
    Word,
    #[regex("[0-9]+\\.[0-9]+")]
    Float,
    #[regex("x[a-z]*;")]
    Stmt,
    #[token("é")]
    E,
}

#[derive(Logos, Debug, PartialEq, Clone, Copy)]
#[logos(utf8 = false)]
enum B {
    #[regex(b"[\x80-\xff]+")]
    High,
    #[token("ab")]
    Ab,
    #[token("ac")]
    Ac,
    #[token("ad")]
    Ad,
    #[regex("a+b", priority = 1)]
    Aab,
}

#[derive(Logos, Debug, PartialEq, Clone, Copy)]
enum C {
    #[regex("[é-ü€]+")]
    Uni,
    #[regex("😊+")]
    Smile,
    #[regex("[a-c]{2}")]
    Two,
}

fn drive_str<'s, T: Logos<'s, Source = str> + std::fmt::Debug>(mut lex: Lexer<'s, T>, len: usize) -> usize {
    let mut n = 0;
    loop {
        let r = lex.next();
        let sp = lex.span();
        assert!(sp.start <= sp.end && sp.end <= len, "span out of range");
        let _ = lex.slice().len() + lex.remainder().len();
        n += 1;
        if r.is_none() || n > len + 2 {
            break;
        }
    }
    n
}
fn drive_bytes<'s, T: Logos<'s, Source = [u8]> + std::fmt::Debug>(mut lex: Lexer<'s, T>, len: usize) -> usize {
    let mut n = 0;
    loop {
        let r = lex.next();
        let sp = lex.span();
        assert!(sp.start <= sp.end && sp.end <= len, "span out of range");
        let _ = lex.slice().len() + lex.remainder().len();
        n += 1;
        if r.is_none() || n > len + 2 {
            break;
        }
    }
    n
}

fn main() {
    let mut runs = 0usize;
    let mut inputs: Vec<Vec<u8>> = vec![];
    let alpha: [&[u8]; 9] = [b"a", b"x", b";", b"0", b".", b" ", "é".as_bytes(), "😊".as_bytes(), b"b"];
    let mut cur: Vec<Vec<u8>> = vec![vec![]];
    inputs.push(vec![]);
    for _ in 0..3 {
        let mut nxt = vec![];
        for s in &cur {
            for a in alpha {
                let mut t = s.clone();
                t.extend_from_slice(a);
                nxt.push(t);
            }
        }
        inputs.extend(nxt.iter().cloned());
        cur = nxt;
    }
    for n in 0..=20usize {
        for tail in [&b""[..], b";", b"0", b" "] {
            let mut s = b"x".to_vec();
            s.extend(std::iter::repeat(b'a').take(n));
            s.extend_from_slice(tail);
            inputs.push(s);
            let mut s: Vec<u8> = std::iter::repeat(b'a').take(n).collect();
            s.extend_from_slice(tail);
            inputs.push(s);
        }
    }
    for inp in &inputs {
        let boxed: Box<[u8]> = inp.clone().into_boxed_slice();
        let s = std::str::from_utf8(&boxed).unwrap();
        runs += drive_str(A::lexer(s), s.len());
        runs += drive_str(Lexer::<A>::new_partial(s), s.len());
        runs += drive_str(C::lexer(s), s.len());
        runs += drive_bytes(B::lexer(&boxed), boxed.len());
        runs += drive_bytes(Lexer::<B>::new_partial(&boxed), boxed.len());
        // bump at every legal position
        let mut l = A::lexer(s);
        l.next();
        let rest = l.remainder().len();
        if rest > 0 && s.is_char_boundary(l.span().end + 1) {
            l.bump(1);
            let _ = l.slice();
        }
    }
    // byte-only inputs
    for n in 0..=18usize {
        let v: Vec<u8> = std::iter::repeat(0xfeu8).take(n).chain(std::iter::once(b'a')).collect();
        let boxed: Box<[u8]> = v.into_boxed_slice();
        runs += drive_bytes(B::lexer(&boxed), boxed.len());
    }
    println!("{{\"inputs\": {}, \"next_calls\": {}}}", inputs.len(), runs);
}
