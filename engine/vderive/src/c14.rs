//! C14: breadth-first exploration of ALL histories of public Lexer API calls (next, bump, clone,
//! morph there and back, spanned) on real Lexer objects, de-duplicated on the canonical observable
//! state (definition, token_start, token_end, mode, extras).
use logos::{Lexer, Logos};
use std::collections::{HashSet, VecDeque};
use vcore::report::{Report, Violation};

fn inc<'s, T: Logos<'s, Extras = u32>>(lex: &mut Lexer<'s, T>) {
    lex.extras += 1;
}

#[derive(Logos, Debug, Clone, PartialEq)]
#[logos(extras = u32)]
#[logos(skip " +")]
pub enum SA {
    #[regex("[a-z]+", inc)]
    Word,
    #[regex("[0-9]+")]
    Num,
    #[token("é")]
    E,
    #[regex("ab\\.\\.")]
    Dots,
    #[token("BEGIN")]
    Begin,
}

#[derive(Logos, Debug, Clone, PartialEq)]
#[logos(extras = u32)]
#[logos(skip("[ab]", inc))]
pub enum SB {
    #[regex("[c-z0-9]")]
    One,
    #[token("€", inc)]
    Euro,
    #[regex("  +")]
    Spaces,
}

#[derive(Logos, Debug, Clone, PartialEq)]
#[logos(extras = u32, utf8 = false)]
#[logos(skip " +")]
pub enum BA {
    #[regex("[a-z]+", inc)]
    Word,
    #[regex(b"[\x80-\xff]")]
    High,
    #[regex("[0-9]+")]
    Num,
}

#[derive(Logos, Debug, Clone, PartialEq)]
#[logos(extras = u32, utf8 = false)]
pub enum BB {
    #[regex(b"[a-z\x80-\xff][a-z\x80-\xff]?", inc)]
    Pair,
    #[token(" ")]
    Sp,
}

/// look-ahead definitions: end-anchored and word-boundary patterns (late-accept states, end-of-input
/// edges), next to longer tokens continuing with the asserting byte
#[derive(Logos, Debug, Clone, PartialEq)]
#[logos(extras = u32)]
pub enum SC {
    #[regex("[a-z]+", inc, priority = 1)]
    Word,
    #[regex("end$", priority = 9)]
    End,
    #[regex(r"let(?-u:\b)", inc, priority = 8)]
    Kw,
    #[token("let ", priority = 20)]
    KwBlank,
    #[token(" ")]
    Sp,
}

#[derive(Logos, Debug, Clone, PartialEq)]
#[logos(extras = u32)]
#[logos(skip("#[a-z]*(?m:$)", inc))]
pub enum SD {
    #[regex("[a-z]+(?m:$)", priority = 9)]
    Eol,
    #[regex("[a-z]+", inc, priority = 1)]
    Word,
    #[token("\n")]
    Nl,
    #[token(" ")]
    Sp,
}

macro_rules! explorer {
    ($modname:ident, $A:ty, $B:ty, $Src:ty, $to_src:expr, $is_boundary:expr, $bytes:expr, $other:expr) => {
        pub mod $modname {
            use super::*;

            #[derive(Clone)]
            pub enum Node<'s> {
                A(Lexer<'s, $A>),
                B(Lexer<'s, $B>),
            }

            /// (item as Debug string, span) of one next() call
            type Step = (Option<String>, usize, usize);

            impl<'s> Node<'s> {
                fn which(&self) -> u8 {
                    match self {
                        Node::A(_) => 0,
                        Node::B(_) => 1,
                    }
                }
                fn span(&self) -> (usize, usize) {
                    let s = match self {
                        Node::A(l) => l.span(),
                        Node::B(l) => l.span(),
                    };
                    (s.start, s.end)
                }
                fn extras(&self) -> u32 {
                    match self {
                        Node::A(l) => l.extras,
                        Node::B(l) => l.extras,
                    }
                }
                fn next(&mut self) -> Step {
                    let r = match self {
                        Node::A(l) => l.next().map(|x| format!("{x:?}")),
                        Node::B(l) => l.next().map(|x| format!("{x:?}")),
                    };
                    let (s, e) = self.span();
                    (r, s, e)
                }
                fn bump1(&mut self) {
                    match self {
                        Node::A(l) => l.bump(1),
                        Node::B(l) => l.bump(1),
                    }
                }
                fn morph(self) -> Node<'s> {
                    match self {
                        Node::A(l) => Node::B(l.morph()),
                        Node::B(l) => Node::A(l.morph()),
                    }
                }
                /// `Clone::clone_from` into a lexer that lives over ANOTHER source, in the other mode,
                /// and has already advanced: afterwards it must be indistinguishable from `clone()`
                fn clone_from_other(&self, other: &'s $Src, other_partial: bool) -> Node<'s> {
                    match self {
                        Node::A(l) => {
                            let mut t: Lexer<'s, $A> = if other_partial { Lexer::new_partial(other) } else { Lexer::new(other) };
                            t.next();
                            t.extras = 77;
                            t.clone_from(l);
                            Node::A(t)
                        }
                        Node::B(l) => {
                            let mut t: Lexer<'s, $B> = if other_partial { Lexer::new_partial(other) } else { Lexer::new(other) };
                            t.next();
                            t.extras = 77;
                            t.clone_from(l);
                            Node::B(t)
                        }
                    }
                }
                fn slice_ok(&self, src: &'s $Src) -> bool {
                    let (s, e) = self.span();
                    let b: &[u8] = $bytes(src);
                    // an accessor that panics (e.g. on the empty span of a fresh or exhausted lexer) is a
                    // disagreement with the source, not a crash of the explorer
                    std::panic::catch_unwind(std::panic::AssertUnwindSafe(|| match self {
                        Node::A(l) => $bytes(l.slice()) == &b[s..e] && $bytes(l.remainder()) == &b[e..] && std::ptr::eq(l.source(), src),
                        Node::B(l) => $bytes(l.slice()) == &b[s..e] && $bytes(l.remainder()) == &b[e..] && std::ptr::eq(l.source(), src),
                    }))
                    .unwrap_or(false)
                }
                /// drive to exhaustion (bounded), returning every step
                fn drain(&mut self, bound: usize) -> Vec<Step> {
                    let mut v = vec![];
                    for _ in 0..bound {
                        let st = self.next();
                        let done = st.0.is_none();
                        v.push(st);
                        if done {
                            break;
                        }
                    }
                    v
                }
                /// count / last / nth / fold / size_hint of the lexer and of its spanned iterator against the
                /// items of manual iteration (`manual`: every Some step until the first None)
                fn iterator_methods(&self, manual: &[Step], bound: usize) -> Option<String> {
                    macro_rules! go {
                        ($l:expr) => {{
                            let l = $l;
                            let items: Vec<String> = manual.iter().map(|m| m.0.clone().unwrap()).collect();
                            let pairs: Vec<(String, usize, usize)> = manual.iter().map(|m| (m.0.clone().unwrap(), m.1, m.2)).collect();
                            let n = manual.len();
                            if n >= bound {
                                return None; // (a lexer that does not end is C03's business)
                            }
                            let c = l.clone().count();
                            if c != n {
                                return Some(format!("Lexer::count() = {c}, manual iteration yields {n} items"));
                            }
                            let la = l.clone().last().map(|x| format!("{x:?}"));
                            if la != items.last().cloned() {
                                return Some(format!("Lexer::last() = {la:?}, manual iteration ends with {:?}", items.last()));
                            }
                            let (lo, hi) = l.size_hint();
                            if lo > n || hi.map_or(false, |h| h < n) {
                                return Some(format!("Lexer::size_hint() = ({lo}, {hi:?}) but {n} items follow"));
                            }
                            let folded: Vec<String> = l.clone().fold(vec![], |mut v, x| {
                                v.push(format!("{x:?}"));
                                v
                            });
                            if folded != items {
                                return Some(format!("Lexer::fold visits {folded:?}, manual iteration {items:?}"));
                            }
                            for k in 0..=n {
                                let mut it = l.clone();
                                let got = it.nth(k).map(|x| format!("{x:?}"));
                                if got != items.get(k).cloned() {
                                    return Some(format!("Lexer::nth({k}) = {got:?}, manual iteration gives {:?}", items.get(k)));
                                }
                                if k < n && (it.span().start, it.span().end) != (pairs[k].1, pairs[k].2) {
                                    return Some(format!("after Lexer::nth({k}) the span is {:?}, manual iteration is at {:?}", it.span(), (pairs[k].1, pairs[k].2)));
                                }
                                let mut sp = l.clone().spanned();
                                let got = sp.nth(k).map(|(x, r)| (format!("{x:?}"), r.start, r.end));
                                if got != pairs.get(k).cloned() {
                                    return Some(format!("SpannedIter::nth({k}) = {got:?}, manual iteration gives {:?}", pairs.get(k)));
                                }
                                let nx = sp.next().map(|(x, r)| (format!("{x:?}"), r.start, r.end));
                                if k < n && nx != pairs.get(k + 1).cloned() {
                                    return Some(format!("after SpannedIter::nth({k}) next() = {nx:?}, manual iteration gives {:?}", pairs.get(k + 1)));
                                }
                            }
                            let sc = l.clone().spanned().count();
                            if sc != n {
                                return Some(format!("SpannedIter::count() = {sc}, manual iteration yields {n} items"));
                            }
                            let sl = l.clone().spanned().last().map(|(x, r)| (format!("{x:?}"), r.start, r.end));
                            if sl != pairs.last().cloned() {
                                return Some(format!("SpannedIter::last() = {sl:?}, manual iteration ends with {:?}", pairs.last()));
                            }
                            let (lo, hi) = l.clone().spanned().size_hint();
                            if lo > n || hi.map_or(false, |h| h < n) {
                                return Some(format!("SpannedIter::size_hint() = ({lo}, {hi:?}) but {n} items follow"));
                            }
                            let sf: Vec<(String, usize, usize)> = l.clone().spanned().fold(vec![], |mut v, (x, r)| {
                                v.push((format!("{x:?}"), r.start, r.end));
                                v
                            });
                            if sf != pairs {
                                return Some(format!("SpannedIter::fold visits {sf:?}, manual iteration {pairs:?}"));
                            }
                            let rev_skip: Vec<(String, usize, usize)> = l.clone().spanned().skip(1).step_by(2).map(|(x, r)| (format!("{x:?}"), r.start, r.end)).collect();
                            let want: Vec<(String, usize, usize)> = pairs.iter().skip(1).step_by(2).cloned().collect();
                            if rev_skip != want {
                                return Some(format!("SpannedIter::skip(1).step_by(2) yields {rev_skip:?}, manual iteration {want:?}"));
                            }
                            None
                        }};
                    }
                    match self {
                        Node::A(l) => go!(l),
                        Node::B(l) => go!(l),
                    }
                }
                fn spanned_all(self, bound: usize) -> Vec<Step> {
                    let mut v = vec![];
                    match self {
                        Node::A(l) => {
                            for (r, sp) in l.spanned().take(bound) {
                                v.push((Some(format!("{r:?}")), sp.start, sp.end));
                            }
                        }
                        Node::B(l) => {
                            for (r, sp) in l.spanned().take(bound) {
                                v.push((Some(format!("{r:?}")), sp.start, sp.end));
                            }
                        }
                    }
                    v
                }
            }

            fn fresh<'s>(which: u8, partial: bool, src: &'s $Src) -> Node<'s> {
                match (which, partial) {
                    // (every public way of making a lexer is used somewhere)
                    (0, false) => Node::A(<$A as Logos>::lexer(src)),
                    (0, true) => Node::A(Lexer::new_partial(src)),
                    (_, false) => Node::B(<$B as Logos>::lexer_with_extras(src, 0)),
                    (_, true) => Node::B(Lexer::partial_with_extras(src, 0)),
                }
            }

            pub fn explore(source: &[u8], depth: usize, rep: &mut Report) {
                let src: &$Src = $to_src(source);
                let len = source.len();
                for partial in [false, true] {
                    for start_def in [0u8, 1] {
                        // (the last component is a fact about the HISTORY, not about the lexer: has a next() call answered
                        // None yet? An iterator that remembers having been exhausted would be merged with one that
                        // does not if the key were the visible state alone)
                        let mut seen: HashSet<(u8, usize, usize, u32, bool)> = HashSet::new();
                        let mut q: VecDeque<(Node, usize, Vec<&'static str>)> = VecDeque::new();
                        let init = fresh(start_def, partial, src);
                        seen.insert((start_def, 0, 0, 0, false));
                        q.push_back((init, 0, vec![]));
                        let complain = |rep: &mut Report, tag: &str, hist: &[&'static str], detail: String| {
                            if rep.violations.len() < 10 {
                                rep.violations.push(Violation {
                                    key: format!("{tag}/{}/{:?}", stringify!($modname), hist),
                                    tag: tag.into(),
                                    case: format!("{} source {:?} partial={partial} start={} history {:?}", stringify!($modname), String::from_utf8_lossy(source), if start_def == 0 { stringify!($A) } else { stringify!($B) }, hist),
                                    detail,
                                    replay: serde_json::json!({"kind": "vderive", "prop": "C14", "tag": tag, "family": stringify!($modname), "source_hex": vcore::hex(source), "depth": hist.len()}),
                                });
                            }
                        };
                        while let Some((node, d, hist)) = q.pop_front() {
                            rep.count("states", 1);
                            crate::tick(|| format!("{} source {:?} partial={partial} history {:?}", stringify!($modname), String::from_utf8_lossy(source), hist));
                            let (s, e) = node.span();
                            let none_seen = hist.contains(&"next=None");
                            // accessor invariants in every state
                            if !(s <= e && e <= len && $is_boundary(src, s) && $is_boundary(src, e)) {
                                complain(rep, "SPAN-RANGE", &hist, format!("span {s}..{e} is not a valid range of the source (len {len})"));
                                continue;
                            }
                            if !node.slice_ok(src) {
                                complain(rep, "ACCESSORS", &hist, format!("slice()/remainder() differ from source[{s}..{e}] / source[{e}..] (or panic)"));
                            }
                            if d == depth {
                                continue;
                            }
                            // ---- next: must equal a fresh lexer of the active definition on source[e..], shifted
                            {
                                let mut n2 = node.clone();
                                let st = n2.next();
                                rep.count("transitions", 1);
                                let rest: &$Src = $to_src(&source[e..]);
                                let mut f = fresh(node.which(), partial, rest);
                                let fs = f.next();
                                let want = (fs.0.clone(), fs.1 + e, fs.2 + e);
                                let extras_delta = f.extras();
                                if st != want {
                                    complain(rep, "NEXT-DIFFERS", &hist, format!("next() gives {st:?}; a fresh lexer on the remainder gives {want:?}"));
                                } else if n2.extras() != node.extras() + extras_delta {
                                    complain(rep, "EXTRAS", &hist, format!("extras {} -> {}, a fresh lexer counts {extras_delta}", node.extras(), n2.extras()));
                                }
                                let (ns, ne) = n2.span();
                                let is_none = st.0.is_none();
                                if seen.insert((n2.which(), ns, ne, n2.extras(), none_seen || is_none)) {
                                    let mut h = hist.clone();
                                    h.push(if is_none { "next=None" } else { "next" });
                                    q.push_back((n2, d + 1, h));
                                }
                            }
                            // ---- bump(1) when in range and on a boundary
                            if e + 1 <= len && $is_boundary(src, e + 1) {
                                let mut n2 = node.clone();
                                let bumped = std::panic::catch_unwind(std::panic::AssertUnwindSafe(|| n2.bump1()));
                                rep.count("transitions", 1);
                                if bumped.is_err() {
                                    complain(rep, "BUMP", &hist, format!("an in-range bump(1) from {s}..{e} (len {len}) panicked"));
                                    continue;
                                }
                                if n2.span() != (s, e + 1) {
                                    complain(rep, "BUMP", &hist, format!("bump(1) from {s}..{e} gives {:?}", n2.span()));
                                }
                                let (ns, ne) = n2.span();
                                if seen.insert((n2.which(), ns, ne, n2.extras(), none_seen)) {
                                    let mut h = hist.clone();
                                    h.push("bump(1)");
                                    q.push_back((n2, d + 1, h));
                                }
                            }
                            // ---- clone: the clone continues like the original and does not affect it
                            {
                                let mut orig_before = node.clone();
                                let before = orig_before.drain(len + 3);
                                let mut c = node.clone();
                                if c.span() != (s, e) || c.extras() != node.extras() || !c.slice_ok(src) {
                                    complain(rep, "CLONE", &hist, format!("a fresh clone reports span {:?} / extras {} (original {:?} / {}) or its slice()/remainder() differ from the source", c.span(), c.extras(), (s, e), node.extras()));
                                }
                                let got = c.drain(len + 3);
                                let mut orig_after = node.clone();
                                let after = orig_after.drain(len + 3);
                                rep.count("transitions", 1);
                                if got != before || after != before {
                                    complain(rep, "CLONE", &hist, format!("clone continues with {got:?}, original {before:?} (after driving the clone: {after:?})"));
                                }
                                let other: &'static $Src = $other;
                                let mut cf = node.clone_from_other(other, !partial);
                                if cf.span() != (s, e) || cf.extras() != node.extras() || !cf.slice_ok(src) {
                                    complain(rep, "CLONE", &hist, format!("clone_from into a lexer over another source gives span {:?} / extras {} (original {:?} / {}) or slice()/remainder() that are not the original's", cf.span(), cf.extras(), (s, e), node.extras()));
                                } else {
                                    let got2 = cf.drain(len + 3);
                                    if got2 != before {
                                        complain(rep, "CLONE", &hist, format!("after clone_from the lexer continues with {got2:?}, the original with {before:?}"));
                                    }
                                }
                            }
                            // ---- morph: position, mode and extras preserved; there and back is the identity
                            {
                                let m = node.clone().morph();
                                rep.count("transitions", 1);
                                if m.span() != (s, e) || m.extras() != node.extras() {
                                    complain(rep, "MORPH", &hist, format!("morph changes span {:?} -> {:?} or extras {} -> {}", (s, e), m.span(), node.extras(), m.extras()));
                                }
                                // partial mode must be preserved: the morphed lexer behaves like a fresh one of the other definition in the same mode
                                let mut m2 = m.clone();
                                let st = m2.next();
                                let rest: &$Src = $to_src(&source[e..]);
                                let mut f = fresh(m.which(), partial, rest);
                                let fs = f.next();
                                if st != (fs.0.clone(), fs.1 + e, fs.2 + e) {
                                    complain(rep, "MORPH-MODE", &hist, format!("after morph next() gives {st:?}; a fresh lexer (partial={partial}) gives {:?}", (fs.0, fs.1 + e, fs.2 + e)));
                                }
                                let back = m.clone().morph();
                                let mut b2 = back.clone();
                                let mut o2 = node.clone();
                                if back.span() != (s, e) || back.extras() != node.extras() || b2.drain(len + 3) != o2.drain(len + 3) {
                                    complain(rep, "MORPH-BACK", &hist, "morph there and back does not give the original lexer back".into());
                                }
                                let (ms, me) = m.span();
                                if seen.insert((m.which(), ms, me, m.extras(), none_seen)) {
                                    let mut h = hist.clone();
                                    h.push("morph");
                                    q.push_back((m, d + 1, h));
                                }
                            }
                            // ---- spanned (terminal): exactly the pairs of manual iteration
                            {
                                let manual: Vec<_> = node.clone().drain(len + 3).into_iter().filter(|x| x.0.is_some()).collect();
                                let sp = node.clone().spanned_all(len + 3);
                                rep.count("transitions", 1);
                                if manual != sp {
                                    complain(rep, "SPANNED", &hist, format!("spanned() yields {sp:?}, manual iteration {manual:?}"));
                                }
                                // ---- spanned() is a WRAPPER: the iterator it returns holds this very lexer - same span,
                                // slice, remainder, extras seen through Deref before its first next(), and an in-range
                                // bump through DerefMut extends the CURRENT span
                                {
                                    let it = match node.clone() {
                                        Node::A(l) => SNode::A(l.spanned()),
                                        Node::B(l) => SNode::B(l.spanned()),
                                    };
                                    let inner = it.inner();
                                    if inner.span() != (s, e) || inner.extras() != node.extras() || !inner.slice_ok(src) {
                                        complain(rep, "SPANNED", &hist, format!("spanned() of a lexer at {:?} (extras {}) wraps a lexer at {:?} (extras {}), or its slice()/remainder() differ from the source", (s, e), node.extras(), inner.span(), inner.extras()));
                                    } else if e + 1 <= len && $is_boundary(src, e + 1) {
                                        let mut it2 = it.clone();
                                        let ok = std::panic::catch_unwind(std::panic::AssertUnwindSafe(|| it2.bump1())).is_ok();
                                        if !ok || it2.inner().span() != (s, e + 1) || !it2.inner().slice_ok(src) {
                                            complain(rep, "SPANNED", &hist, format!("bump(1) through a fresh spanned iterator of a lexer at {:?} gives {:?}", (s, e), it2.inner().span()));
                                        }
                                    }
                                }
                                // ---- every PROVIDED Iterator method an impl may override (count, last, nth, fold,
                                // size_hint), on the lexer and on the spanned iterator: each is defined by next()
                                if let Some(bad) = node.iterator_methods(&manual, len + 3) {
                                    complain(rep, "ITER-METHODS", &hist, bad);
                                }
                            }
                        }
                    }
                }
            }

            /// the same histories driven THROUGH the spanned iterator (`SpannedIter` derefs to the lexer, so
            /// `bump` and the accessors are available on it; it is `Clone` and an iterator itself): in every
            /// state its next() must be the wrapped lexer's next() paired with the span, whatever was
            /// called before - also after a None that was not final (partial mode), after a bump behind
            /// an exhausted lexer, on a clone.
            #[derive(Clone)]
            pub enum SNode<'s> {
                A(logos::SpannedIter<'s, $A>),
                B(logos::SpannedIter<'s, $B>),
            }

            impl<'s> SNode<'s> {
                fn inner(&self) -> Node<'s> {
                    match self {
                        SNode::A(i) => Node::A((**i).clone()),
                        SNode::B(i) => Node::B((**i).clone()),
                    }
                }
                fn next(&mut self) -> Step {
                    let r = match self {
                        SNode::A(i) => i.next().map(|(x, sp)| (format!("{x:?}"), sp)),
                        SNode::B(i) => i.next().map(|(x, sp)| (format!("{x:?}"), sp)),
                    };
                    match r {
                        Some((x, sp)) => (Some(x), sp.start, sp.end),
                        None => {
                            let (s, e) = self.inner().span();
                            (None, s, e)
                        }
                    }
                }
                fn bump1(&mut self) {
                    match self {
                        SNode::A(i) => i.bump(1),
                        SNode::B(i) => i.bump(1),
                    }
                }
            }

            pub fn explore_spanned(source: &[u8], depth: usize, rep: &mut Report) {
                let src: &$Src = $to_src(source);
                let len = source.len();
                for partial in [false, true] {
                    for start_def in [0u8, 1] {
                        let mut seen: HashSet<(usize, usize, u32, bool)> = HashSet::new();
                        let mut q: VecDeque<(SNode, usize, Vec<&'static str>)> = VecDeque::new();
                        let init = match fresh(start_def, partial, src) {
                            Node::A(l) => SNode::A(l.spanned()),
                            Node::B(l) => SNode::B(l.spanned()),
                        };
                        seen.insert((0, 0, 0, false));
                        q.push_back((init, 0, vec![]));
                        let complain = |rep: &mut Report, tag: &str, hist: &[&'static str], detail: String| {
                            if rep.violations.len() < 10 {
                                rep.violations.push(Violation {
                                    key: format!("{tag}/spanned/{}/{:?}", stringify!($modname), hist),
                                    tag: tag.into(),
                                    case: format!("{} (through the spanned iterator) source {:?} partial={partial} start={} history {:?}", stringify!($modname), String::from_utf8_lossy(source), if start_def == 0 { stringify!($A) } else { stringify!($B) }, hist),
                                    detail,
                                    replay: serde_json::json!({"kind": "vderive", "prop": "C14", "tag": tag, "family": stringify!($modname), "source_hex": vcore::hex(source), "depth": hist.len()}),
                                });
                            }
                        };
                        while let Some((node, d, hist)) = q.pop_front() {
                            rep.count("states", 1);
                            rep.count("spanned_iterator_states", 1);
                            let inner = node.inner();
                            let (s, e) = inner.span();
                            let none_seen = hist.contains(&"next=None");
                            if !(s <= e && e <= len && $is_boundary(src, s) && $is_boundary(src, e)) {
                                complain(rep, "SPAN-RANGE", &hist, format!("span {s}..{e} is not a valid range of the source (len {len})"));
                                continue;
                            }
                            if !inner.slice_ok(src) {
                                complain(rep, "ACCESSORS", &hist, format!("slice()/remainder() seen through the spanned iterator differ from source[{s}..{e}] / source[{e}..]"));
                            }
                            if d == depth {
                                continue;
                            }
                            // ---- next through the iterator == next of the wrapped lexer, with its span; the same on a clone
                            {
                                let mut n2 = node.clone();
                                let st = n2.next();
                                let mut c2 = node.clone().clone();
                                let ct = c2.next();
                                let mut l = inner.clone();
                                let want = l.next();
                                rep.count("transitions", 2);
                                if st != want || ct != want {
                                    complain(rep, "SPANNED", &hist, format!("next() of the spanned iterator gives {st:?} (of its clone: {ct:?}); the wrapped lexer gives {want:?}"));
                                } else if n2.inner().span() != l.span() || n2.inner().extras() != l.extras() {
                                    complain(rep, "SPANNED", &hist, format!("after next() the iterator wraps span {:?} / extras {}, the lexer is at {:?} / {}", n2.inner().span(), n2.inner().extras(), l.span(), l.extras()));
                                }
                                let is_none = st.0.is_none();
                                let (ns, ne) = n2.inner().span();
                                if seen.insert((ns, ne, n2.inner().extras(), none_seen || is_none)) {
                                    let mut h = hist.clone();
                                    h.push(if is_none { "next=None" } else { "next" });
                                    q.push_back((n2, d + 1, h));
                                }
                            }
                            // ---- bump(1) through DerefMut
                            if e + 1 <= len && $is_boundary(src, e + 1) {
                                let mut n2 = node.clone();
                                let bumped = std::panic::catch_unwind(std::panic::AssertUnwindSafe(|| n2.bump1()));
                                rep.count("transitions", 1);
                                if bumped.is_err() || n2.inner().span() != (s, e + 1) {
                                    complain(rep, "BUMP", &hist, format!("an in-range bump(1) through the spanned iterator from {s}..{e} (len {len}) panicked or gives {:?}", n2.inner().span()));
                                    continue;
                                }
                                if seen.insert((s, e + 1, n2.inner().extras(), none_seen)) {
                                    let mut h = hist.clone();
                                    h.push("bump(1)");
                                    q.push_back((n2, d + 1, h));
                                }
                            }
                            // ---- the rest of the iterator == manual iteration of the wrapped lexer
                            {
                                let manual: Vec<_> = inner.clone().drain(len + 3).into_iter().filter(|x| x.0.is_some()).collect();
                                let mut it = node.clone();
                                let mut got = vec![];
                                for _ in 0..len + 3 {
                                    let st = it.next();
                                    if st.0.is_none() {
                                        break;
                                    }
                                    got.push(st);
                                }
                                rep.count("transitions", 1);
                                if got != manual {
                                    complain(rep, "SPANNED", &hist, format!("the spanned iterator continues with {got:?}, manual iteration of the wrapped lexer with {manual:?}"));
                                }
                            }
                        }
                    }
                }
            }
        }
    };
}

fn to_str(b: &[u8]) -> &str {
    std::str::from_utf8(b).unwrap()
}
fn str_boundary(s: &str, i: usize) -> bool {
    s.is_char_boundary(i)
}
fn str_bytes(s: &str) -> &[u8] {
    s.as_bytes()
}
fn ident(b: &[u8]) -> &[u8] {
    b
}
fn bin_boundary(s: &[u8], i: usize) -> bool {
    i <= s.len()
}

explorer!(strs, SA, SB, str, to_str, str_boundary, str_bytes, "zz 9 é and a longer tail");
explorer!(bins, BA, BB, [u8], ident, bin_boundary, ident, b"zz 9 \xff and a longer tail");
explorer!(looks, SC, SD, str, to_str, str_boundary, str_bytes, "let end\nzz and a longer tail");

#[derive(Logos, Debug, Clone, PartialEq)]
#[logos(extras = std::rc::Rc<u8>)]
pub enum RcTok {
    #[regex("[a-z]+")]
    W,
    #[token(" ")]
    S,
}

/// morph between enums whose extras DIFFER IN TYPE (`Extras: Into<Extras2>`): a tally kept in a
/// newtype on one side and a plain wider integer on the other
#[derive(Debug, Clone, Default, PartialEq)]
pub struct Tally(pub u16);
impl From<Tally> for u64 {
    fn from(t: Tally) -> u64 {
        t.0 as u64 + 1_000_000
    }
}

#[derive(Logos, Debug, Clone, PartialEq)]
#[logos(extras = Tally)]
#[logos(skip " +")]
pub enum MA {
    #[regex("[a-z]+", |lex| { lex.extras.0 += 1; })]
    Word,
    #[regex("[0-9]+")]
    Num,
    #[token("é")]
    E,
}

#[derive(Logos, Debug, Clone, PartialEq)]
#[logos(extras = u64)]
pub enum MB {
    #[regex("[a-z]", |lex| { lex.extras += 1; })]
    Letter,
    #[regex("[0-9 é]")]
    Other,
}

/// every position of every source, ordinary and partial: after `morph` into an enum with another
/// extras type the position is kept, the extras are exactly `Into::into` of the old ones, the mode
/// is kept (the continuation equals a fresh lexer of the new enum in the same mode on the
/// remainder) and `source()` is still the very same text
fn morph_into_other_extras(rep: &mut Report) {
    for source in ["", "ab 12", "ab é12 cd", "ab", "12 ab ", "é"] {
        for partial in [false, true] {
            for steps in 0..6 {
                crate::tick(|| format!("morph into other extras, source {source:?}, {steps} steps"));
                let mut lex: Lexer<MA> = if partial { Lexer::new_partial(source) } else { Lexer::new(source) };
                let mut stop = false;
                for _ in 0..steps {
                    if lex.next().is_none() {
                        stop = true;
                    }
                }
                let (sp, ex) = (lex.span(), lex.extras.clone());
                let m: Lexer<MB> = lex.clone().morph();
                rep.count("transitions", 1);
                let mut bad: Option<String> = None;
                if m.span() != sp || m.extras != u64::from(ex.clone()) {
                    bad = Some(format!("span {:?} -> {:?}, extras {:?} -> {} (Into gives {})", sp, m.span(), ex, m.extras, u64::from(ex.clone())));
                } else if !std::ptr::eq(m.source(), source) || !std::ptr::eq(lex.source(), source) {
                    bad = Some("source() is not the text the lexer was made over".into());
                } else {
                    let rest = &source[sp.end..];
                    let mut f: Lexer<MB> = if partial { Lexer::partial_with_extras(rest, 0) } else { Lexer::with_extras(rest, 0) };
                    let mut m2 = m.clone();
                    for _ in 0..source.len() + 2 {
                        let (a, b) = (m2.next(), f.next());
                        let (sa, sb) = (m2.span(), f.span());
                        if a != b || sa.start != sb.start + sp.end || sa.end != sb.end + sp.end || m2.extras != f.extras + u64::from(ex.clone()) {
                            bad = Some(format!("after morph next() gives {a:?} at {sa:?} (extras {}), a fresh lexer of the target enum (partial={partial}) on the remainder gives {b:?} at {sb:?} (+{}) (extras {})", m2.extras, sp.end, f.extras));
                            break;
                        }
                        if a.is_none() {
                            break;
                        }
                    }
                }
                if let Some(detail) = bad {
                    if rep.violations.len() < 10 {
                        rep.violations.push(Violation {
                            key: format!("MORPH/other-extras/{source}/{steps}/{partial}"),
                            tag: "MORPH".into(),
                            case: format!("morph MA (extras = Tally) -> MB (extras = u64), source {source:?}, {steps} x next(), partial={partial}"),
                            detail,
                            replay: serde_json::json!({"kind": "vderive", "prop": "C14", "tag": "MORPH"}),
                        });
                    }
                }
                if stop {
                    break;
                }
            }
        }
    }
}

/// extras that own something: every clone (of the lexer, of the spanned iterator) holds its own
/// reference, taken without touching the original's
fn owned_extras(rep: &mut Report) {
    use std::rc::Rc;
    for source in ["", "ab cd", "ab cd ef"] {
        for steps in 0..4 {
            for partial in [false, true] {
                crate::tick(|| format!("owned extras, source {source:?}, {steps} steps"));
                let rc = Rc::new(7u8);
                let mut lex: Lexer<RcTok> = if partial { Lexer::partial_with_extras(source, rc.clone()) } else { Lexer::with_extras(source, rc.clone()) };
                for _ in 0..steps {
                    lex.next();
                }
                let c1 = lex.clone();
                let n1 = Rc::strong_count(&rc);
                let c2 = c1.clone();
                let n2 = Rc::strong_count(&rc);
                let sp = lex.clone().spanned();
                let sp2 = sp.clone();
                let n3 = Rc::strong_count(&rc);
                rep.count("transitions", 3);
                if (n1, n2, n3) != (3, 4, 6) {
                    if rep.violations.len() < 10 {
                        rep.violations.push(Violation {
                            key: format!("CLONE/owned-extras/{source}/{steps}/{partial}"),
                            tag: "CLONE".into(),
                            case: format!("extras = Rc<u8>, source {source:?}, {steps} x next(), partial={partial}"),
                            detail: format!("reference counts after lexer.clone(), clone.clone(), spanned().clone(): {n1}, {n2}, {n3} (expected 3, 4, 6): a clone released or shares the original's extras"),
                            replay: serde_json::json!({"kind": "vderive", "prop": "C14", "tag": "CLONE"}),
                        });
                    }
                    // the counts are wrong: dropping these values could free the extras twice
                    std::mem::forget((lex, c1, c2, sp, sp2));
                    continue;
                }
                drop((c1, c2, sp, sp2));
                if Rc::strong_count(&rc) != 2 || *lex.extras != 7 {
                    rep.violations.push(Violation { key: format!("CLONE/owned-extras-drop/{source}/{steps}"), tag: "CLONE".into(), case: format!("extras = Rc<u8>, source {source:?}"), detail: "dropping the clones changed the original's extras".into(), replay: serde_json::json!({"kind": "vderive", "prop": "C14", "tag": "CLONE"}) });
                    std::mem::forget(lex);
                }
            }
        }
    }
}

pub fn run(tier: &str, rep: &mut Report) {
    std::panic::set_hook(Box::new(|_| {}));
    let depth = if tier == "thorough" { 12 } else { 8 };
    rep.bounds.insert("histories".into(), format!("all sequences of {{next, bump(1) when legal, clone, morph, spanned}} up to depth {depth}, de-duplicated on (definition, token_start, token_end, extras, has a next() answered None before), and the same histories of {{next, bump(1), clone}} driven through the SpannedIter wrapper (its next() must be the wrapped lexer's in every state), in every state count / last / nth(k) for every k / fold / size_hint / skip+step_by of the lexer and of its spanned iterator against manual iteration, for 3 definition pairs (str, bytes, str with look-ahead / end-anchored patterns) x {{ordinary, partial}} x both start definitions x 10-12 sources each (empty, ASCII, multi-byte, ending in a skip, ending mid-token, unmatched bytes, a leading byte order mark, 4-byte characters, a longer text)"));
    let str_sources: [&str; 12] = ["", "ab 12", "éa€b", "abc  ", "ab..", "a!b", "ab. x9", "BEG 1 BEGI", "\u{feff}ab 1", "a😊b 😊", "ab 12 cd 345 é€ ef.. 6", "\u{feff}"];
    for s in str_sources {
        strs::explore(s.as_bytes(), depth, rep);
        strs::explore_spanned(s.as_bytes(), depth, rep);
        rep.count("programs", 1);
    }
    let look_sources: [&str; 10] = ["", "let end", "let x\nend", "ab\nend", "letx #a", "#ab\nlet", "end end\n", "\u{feff}let end", "let let\nend\n#x let", "é let"];
    for s in look_sources {
        looks::explore(s.as_bytes(), depth, rep);
        looks::explore_spanned(s.as_bytes(), depth, rep);
        rep.count("programs", 1);
    }
    let bin_sources: [&[u8]; 10] = [b"", b"ab 12", b"\xc3\xa9a\xff", b"abc  ", b"a\x80\x80b", b"a!b", b"zz 7\xfe", b"\xef\xbb\xbfab 1", b"\xff\xfe\x00a", b"ab 12 cd 345 \xff\xff ef 6"];
    for s in bin_sources {
        bins::explore(s, depth, rep);
        bins::explore_spanned(s, depth, rep);
        rep.count("programs", 1);
    }
    owned_extras(rep);
    morph_into_other_extras(rep);
    let t = rep.counts.get("transitions").copied().unwrap_or(0);
    rep.count("traces_validated_against_impl", t);
    rep.samples.push(serde_json::json!({"source": "éa€b", "pair": "SA/SB", "example_history": ["next", "morph", "next", "bump(1)", "clone", "spanned"]}));
}
