//! C15: Lexer::bump over every source, position and boundary value of n, including use of the
//! lexer after a caught panic.
use logos::{Lexer, Logos};
use std::panic::{catch_unwind, AssertUnwindSafe};
use vcore::report::{Report, Violation};

#[derive(Logos, Debug, Clone, PartialEq)]
pub enum CS {
    #[regex(".", priority = 1)]
    Ch,
}

#[derive(Logos, Debug, Clone, PartialEq)]
#[logos(utf8 = false)]
pub enum CB {
    #[regex(b"(?s-u:.)", priority = 1)]
    By,
}

/// a second str enum to morph into and back (bump on a morphed lexer)
#[derive(Logos, Debug, Clone, PartialEq)]
pub enum CS2 {
    #[regex("(?s:.)", priority = 1)]
    Any,
}

/// hand-written Logos impls over WRAPPER sources (`impl<T: Deref> Source for T`): only bump and
/// the accessors are exercised, `lex` is never asked for a token
macro_rules! wrapper_token {
    ($name:ident, $src:ty) => {
        #[derive(Debug, Clone, PartialEq)]
        pub struct $name;
        impl<'s> Logos<'s> for $name {
            type Extras = ();
            type Source = $src;
            type Error = ();
            fn lex(_lex: &mut Lexer<'s, Self>) -> Option<Result<Self, ()>> {
                None
            }
        }
    };
}
wrapper_token!(WString, String);
wrapper_token!(WBoxStr, Box<str>);
wrapper_token!(WVec, Vec<u8>);
wrapper_token!(WRefStr, &'static str);

/// USER-WRITTEN sources (not `Deref` wrappers): everything is delegated to `[u8]` / `str` except
/// `is_boundary`, which is written the way a user would write it by hand - by INDEXING, so that it
/// panics itself for an index behind the end instead of answering `false`. `bump` hands whatever it
/// was given to `is_boundary`; if that call unwinds the lexer must be what it was before.
macro_rules! strict_source {
    ($name:ident, $inner:ty, $slice:ty, $boundary:expr) => {
        pub struct $name(pub Box<$inner>);
        impl logos::Source for $name {
            type Slice<'a> = &'a $slice;
            fn len(&self) -> usize {
                self.0.len()
            }
            fn read<'a, C: logos::source::Chunk<'a>>(&'a self, offset: usize) -> Option<C> {
                <$inner as logos::Source>::read(&self.0, offset)
            }
            fn slice(&self, range: std::ops::Range<usize>) -> Option<&$slice> {
                <$inner as logos::Source>::slice(&self.0, range)
            }
            #[cfg(not(feature = "forbid_unsafe"))]
            unsafe fn slice_unchecked(&self, range: std::ops::Range<usize>) -> &$slice {
                // (checked on purpose: the harness must never execute the UB it is looking for)
                &self.0[range]
            }
            fn find_boundary(&self, index: usize) -> usize {
                <$inner as logos::Source>::find_boundary(&self.0, index)
            }
            fn is_boundary(&self, index: usize) -> bool {
                $boundary(&*self.0, index)
            }
        }
    };
}
strict_source!(StrictBytes, [u8], [u8], |s: &[u8], i: usize| -> bool { i == s.len() || s[i] as u16 <= 0xff });
strict_source!(StrictStr, str, str, |s: &str, i: usize| -> bool { i == s.len() || (s.as_bytes()[i] as i8) >= -0x40 });
wrapper_token!(WStrictBytes, StrictBytes);
wrapper_token!(WStrictStr, StrictStr);

fn n_values(len: usize) -> Vec<usize> {
    let mut v: Vec<usize> = (0..=len + 2).collect();
    v.extend(usize::MAX - len - 2..=usize::MAX);
    v.extend([1usize << 63, (1usize << 63) - 1, (1usize << 63) + 1, usize::MAX / 2, 1usize << 32]);
    v.sort();
    v.dedup();
    v
}

pub fn run(tier: &str, rep: &mut Report) {
    // unoptimised quick runs take every 17th scalar value above U+3000 (the optimised builds and the thorough tier take all)
    let sparse = cfg!(debug_assertions) && tier != "thorough";
    rep.bounds.insert("rule".into(), "sources {\"\", \"a\", \"aé\", \"é€😊\", 9-byte ASCII} as str and [u8], ordinary and partial lexers, the lexer also obtained by clone, by morph into another enum (bumped there, morphed back) and through the spanned iterator, the same through String / Box<str> / Vec<u8> / &str wrappers and through two user-written sources whose is_boundary panics by itself behind the end, plus \"a<c>b\" for EVERY Unicode scalar value c (positions 0 and 1, n in 0..=len+1) and byte sources of every value (all strings of length <= 2, length 3 over 12 UTF-8 edge bytes, invalid UTF-8 included); every lexer position reachable by next() (every char / byte boundary); n in {0..=len+2} U {usize::MAX-len-2..=usize::MAX} U {2^63-1, 2^63, 2^63+1, usize::MAX/2, 2^32}. Oracle: bump(n) returns normally iff end+n <= len in unbounded arithmetic and (str) lands on a char boundary, otherwise it panics; after BOTH outcomes span() is a valid range on boundaries (checked numerically before slice()/remainder() are called). Non-trivial = the expected outcome is a panic or end+n is within +-1 of len.".into());
    let sources: [&str; 5] = ["", "a", "aé", "é€😊", "abcdefghi"];
    std::panic::set_hook(Box::new(|_| {}));
    for src in sources {
        // ---------------- str
        let positions: Vec<usize> = (0..=src.len()).filter(|&i| src.is_char_boundary(i)).collect();
        for (k, &pos) in positions.iter().enumerate() {
            for (n, partial) in n_values(src.len()).into_iter().flat_map(|n| [(n, false), (n, true)]) {
                let mut lex: Lexer<CS> = if partial { Lexer::new_partial(src) } else { Lexer::new(src) };
                for _ in 0..k {
                    lex.next();
                }
                let end0 = lex.span().end;
                debug_assert_eq!(end0, pos);
                let want_ok = end0.checked_add(n).map_or(false, |e| e <= src.len() && src.is_char_boundary(e));
                let r = catch_unwind(AssertUnwindSafe(|| lex.bump(n)));
                check(rep, if partial { "str (partial lexer)" } else { "str" }, src.as_bytes(), pos, n, want_ok, r.is_ok(), lex.span().start, lex.span().end, |i| src.is_char_boundary(i), || {
                    let sp = lex.span();
                    lex.slice().len() == sp.end - sp.start && lex.remainder().len() == src.len() - sp.end
                });
            }
        }
        // ---------------- str, the lexer obtained by clone / morph (there and back) / through the
        // spanned iterator, positioned by next() before or after that step
        for (k, &pos) in positions.iter().enumerate() {
            for n in n_values(src.len()) {
                for via in 0..5 {
                    let mut base: Lexer<CS> = Lexer::new(src);
                    if via % 2 == 0 {
                        for _ in 0..k {
                            base.next();
                        }
                    }
                    let want_ok = pos.checked_add(n).map_or(false, |e| e <= src.len() && src.is_char_boundary(e));
                    let (kind, ok, sp, slices): (&str, bool, (usize, usize), bool) = match via {
                        0 => {
                            let mut l = base.clone();
                            let r = catch_unwind(AssertUnwindSafe(|| l.bump(n)));
                            let sp = l.span();
                            let valid = sp.start <= sp.end && sp.end <= src.len() && src.is_char_boundary(sp.start) && src.is_char_boundary(sp.end);
                            ("str (a clone)", r.is_ok(), (sp.start, sp.end), !valid || (l.slice().len() == sp.end - sp.start && l.remainder().len() == src.len() - sp.end))
                        }
                        1 | 2 => {
                            let mut m: Lexer<CS2> = base.morph();
                            if via == 1 {
                                for _ in 0..k {
                                    m.next();
                                }
                            }
                            let r = catch_unwind(AssertUnwindSafe(|| m.bump(n)));
                            let back: Lexer<CS> = m.morph();
                            let sp = back.span();
                            let valid = sp.start <= sp.end && sp.end <= src.len() && src.is_char_boundary(sp.start) && src.is_char_boundary(sp.end);
                            ("str (morphed, bumped, morphed back)", r.is_ok(), (sp.start, sp.end), !valid || (back.slice().len() == sp.end - sp.start && back.remainder().len() == src.len() - sp.end))
                        }
                        _ => {
                            let mut it = base.spanned();
                            if via == 3 {
                                for _ in 0..k {
                                    it.next();
                                }
                            }
                            let r = catch_unwind(AssertUnwindSafe(|| it.bump(n)));
                            let sp = it.span();
                            let valid = sp.start <= sp.end && sp.end <= src.len() && src.is_char_boundary(sp.start) && src.is_char_boundary(sp.end);
                            ("str (through the spanned iterator)", r.is_ok(), (sp.start, sp.end), !valid || (it.slice().len() == sp.end - sp.start && it.remainder().len() == src.len() - sp.end))
                        }
                    };
                    check(rep, kind, src.as_bytes(), pos, n, want_ok, ok, sp.0, sp.1, |i| src.is_char_boundary(i), || slices);
                }
            }
        }
        // ---------------- bytes
        let b = src.as_bytes();
        for pos in 0..=b.len() {
            for (n, partial) in n_values(b.len()).into_iter().flat_map(|n| [(n, false), (n, true)]) {
                let mut lex: Lexer<CB> = if partial { Lexer::new_partial(b) } else { Lexer::new(b) };
                for _ in 0..pos {
                    lex.next();
                }
                let end0 = lex.span().end;
                let want_ok = end0.checked_add(n).map_or(false, |e| e <= b.len());
                let r = catch_unwind(AssertUnwindSafe(|| lex.bump(n)));
                check(rep, if partial { "[u8] (partial lexer)" } else { "[u8]" }, b, pos, n, want_ok, r.is_ok(), lex.span().start, lex.span().end, |i| i <= b.len(), || {
                    let sp = lex.span();
                    lex.slice().len() == sp.end - sp.start && lex.remainder().len() == b.len() - sp.end
                });
            }
        }
    }
    // ---------------- wrapper sources
    macro_rules! wrapper_sweep {
        ($tok:ty, $kind:expr, $mk:expr, $is_str:expr) => {
            for src in sources {
                let owned = $mk(src);
                let bytes = src.as_bytes();
                let positions: Vec<usize> = (0..=bytes.len()).filter(|&i| !$is_str || src.is_char_boundary(i)).collect();
                for &pos in &positions {
                    for n in n_values(bytes.len()) {
                        let mut lex: Lexer<$tok> = Lexer::new(&owned);
                        // moving to the start position is itself a legal bump (a boundary within the source)
                        if catch_unwind(AssertUnwindSafe(|| lex.bump(pos))).is_err() {
                            check(rep, $kind, bytes, 0, pos, true, false, 0, 0, |_| true, || true);
                            continue;
                        }
                        let want_ok = pos.checked_add(n).map_or(false, |e| e <= bytes.len() && (!$is_str || src.is_char_boundary(e)));
                        let r = catch_unwind(AssertUnwindSafe(|| lex.bump(n)));
                        let sp = lex.span();
                        // start stays 0 for these (no next()): compare the end only
                        check(rep, $kind, bytes, pos, n, want_ok, r.is_ok(), pos.min(sp.start.max(pos)), sp.end, |i| i <= bytes.len() && (!$is_str || src.is_char_boundary(i)), || {
                            let sp = lex.span();
                            sp.start == 0 && lex.remainder().len() == bytes.len() - sp.end && lex.slice().len() == sp.end
                        });
                    }
                }
            }
        };
    }
    wrapper_sweep!(WString, "String", |s: &str| s.to_string(), true);
    wrapper_sweep!(WBoxStr, "Box<str>", |s: &str| s.to_string().into_boxed_str(), true);
    wrapper_sweep!(WVec, "Vec<u8>", |s: &str| s.as_bytes().to_vec(), false);
    wrapper_sweep!(WRefStr, "&str", |s: &'static str| s, true);
    wrapper_sweep!(WStrictBytes, "user-written byte source whose is_boundary indexes (panics behind the end)", |s: &str| StrictBytes(s.as_bytes().to_vec().into_boxed_slice()), false);
    wrapper_sweep!(WStrictStr, "user-written str source whose is_boundary indexes (panics behind the end)", |s: &str| StrictStr(s.to_string().into_boxed_str()), true);
    // ---------------- every Unicode scalar value: source "a<c>b", every n from a fresh lexer and
    // from the position after the first character (the boundary test must not single out any
    // code point or byte value)
    let parts: Vec<Report> = std::thread::scope(|sc| {
        let hs: Vec<_> = (0..16u32)
            .map(|t| {
                sc.spawn(move || {
                    let mut rep = Report::new("C15", "scalar sweep", "");
                    let mut src = String::new();
                    for c in (0..=0x10ffffu32).filter(|u| u % 16 == t).filter(|u| !sparse || *u < 0x3000 || (u / 16) % 17 == 0).filter_map(char::from_u32) {
                        src.clear();
                        src.push('a');
                        src.push(c);
                        src.push('b');
                        let len = src.len();
                        for pos in [0usize, 1] {
                            for n in 0..=len + 1 - pos {
                                let mut lex: Lexer<CS> = Lexer::new(src.as_str());
                                if pos == 1 {
                                    lex.next();
                                }
                                let want_ok = pos + n <= len && src.is_char_boundary(pos + n);
                                let r = catch_unwind(AssertUnwindSafe(|| lex.bump(n)));
                                check(&mut rep, "str (every scalar value)", src.as_bytes(), pos, n, want_ok, r.is_ok(), lex.span().start, lex.span().end, |i| src.is_char_boundary(i), || {
                                    let sp = lex.span();
                                    lex.slice().len() == sp.end - sp.start && lex.remainder().len() == len - sp.end
                                });
                            }
                        }
                    }
                    rep
                })
            })
            .collect();
        hs.into_iter().map(|h| h.join().expect("scalar sweep worker")).collect()
    });
    // ---------------- byte sources that are NOT valid UTF-8: every byte string of length <= 2, and
    // length 3 over the bytes at which UTF-8 changes its mind (lead bytes of every width, truncated
    // sequences, continuation bytes, 0xff); every position reachable by next(), every n in 0..=len+2.
    // A byte source has no character structure: whatever the bytes look like, only the length counts.
    let edge: [u8; 12] = [0x00, 0x41, 0x7f, 0x80, 0xbf, 0xc2, 0xdf, 0xe2, 0xef, 0xf0, 0xf4, 0xff];
    let mut bsources: Vec<Vec<u8>> = vec![];
    for a in 0..=255u8 {
        bsources.push(vec![a]);
        for b in 0..=255u8 {
            if !sparse || edge.contains(&a) || edge.contains(&b) || (a as usize * 7 + b as usize) % 13 == 0 {
                bsources.push(vec![a, b]);
            }
        }
        for b in edge {
            for c in edge {
                bsources.push(vec![a, b, c]);
            }
        }
    }
    let bparts: Vec<Report> = std::thread::scope(|sc| {
        let chunks: Vec<&[Vec<u8>]> = bsources.chunks(bsources.len() / 16 + 1).collect();
        let hs: Vec<_> = chunks
            .into_iter()
            .map(|chunk| {
                sc.spawn(move || {
                    let mut rep = Report::new("C15", "byte sweep", "");
                    for b in chunk {
                        for pos in 0..=b.len() {
                            for n in 0..=b.len() + 2 - pos {
                                let mut lex: Lexer<CB> = Lexer::new(b.as_slice());
                                for _ in 0..pos {
                                    lex.next();
                                }
                                let want_ok = pos + n <= b.len();
                                let r = catch_unwind(AssertUnwindSafe(|| lex.bump(n)));
                                check(&mut rep, "[u8] (every byte value)", b, pos, n, want_ok, r.is_ok(), lex.span().start, lex.span().end, |i| i <= b.len(), || {
                                    let sp = lex.span();
                                    lex.slice().len() == sp.end - sp.start && lex.remainder().len() == b.len() - sp.end
                                });
                            }
                        }
                    }
                    rep
                })
            })
            .collect();
        hs.into_iter().map(|h| h.join().expect("byte sweep worker")).collect()
    });
    for part in parts.into_iter().chain(bparts) {
        let room = 12usize.saturating_sub(rep.violations.len());
        let mut part = part;
        part.violations.truncate(room);
        rep.merge(part);
    }
    let _ = std::panic::take_hook();
    rep.samples.push(serde_json::json!({"source": "é€😊", "position": 2, "n": [1, 3, "usize::MAX", "usize::MAX-1"], "expected": ["panic (inside €)", "ok", "panic", "panic"]}));
}

#[allow(clippy::too_many_arguments)]
fn check(rep: &mut Report, kind: &str, src: &[u8], pos: usize, n: usize, want_ok: bool, got_ok: bool, start: usize, end: usize, is_boundary: impl Fn(usize) -> bool, slices_ok: impl FnOnce() -> bool) {
    rep.count("evaluations", 1);
    if rep.counts["evaluations"] % 64 == 1 {
        crate::tick(|| format!("{kind} source {:?}, position {pos}, bump({n})", String::from_utf8_lossy(src)));
    }
    let near = pos.checked_add(n).map_or(true, |e| (e as i128 - src.len() as i128).abs() <= 1);
    if !want_ok || near {
        rep.count("distinct_nontrivial", 1);
    }
    let case = format!("{kind} source {:?} (len {}), position {pos}, bump({n})", String::from_utf8_lossy(src), src.len());
    let mut bad: Option<(&str, String)> = None;
    if want_ok != got_ok {
        bad = Some(("BUMP-OUTCOME", format!("expected {}, got {}", if want_ok { "success" } else { "a panic" }, if got_ok { "success" } else { "a panic" })));
    }
    let valid = start <= end && end <= src.len() && is_boundary(start) && is_boundary(end);
    if !valid {
        bad = Some(("BUMP-CORRUPTS", format!("after bump ({}) the span is {start}..{end}: safe code can now ask for a slice outside the source or inside a code point", if got_ok { "returned" } else { "panicked" })));
    } else if want_ok && got_ok && end != pos + n {
        bad = Some(("BUMP-OUTCOME", format!("bump succeeded but the end is {end}, expected {}", pos + n)));
    } else if !got_ok && end != pos {
        bad = Some(("BUMP-CORRUPTS", format!("bump panicked but moved the end from {pos} to {end}")));
    } else if !slices_ok() {
        bad = Some(("BUMP-CORRUPTS", "slice()/remainder() do not match the span".into()));
    }
    if let Some((tag, detail)) = bad {
        rep.count("violating_cases", 1);
        if rep.violations.len() < 12 {
            rep.violations.push(Violation {
                key: format!("{tag}/{kind}/{}/{pos}/{n}", vcore::hex(src)),
                tag: tag.into(),
                case,
                detail,
                replay: serde_json::json!({"kind": "vderive", "prop": "C15", "tag": tag}),
            });
        }
    }
}
