//! C20 through the REAL derive with callbacks: the read trace of every match attempt of the
//! callback-carrying enums of c13 (rejecting callbacks, skip callbacks, bumping callbacks,
//! look-ahead keywords) must still go left to right and stay within the linear bound.
#[cfg(feature = "trace")]
use crate::c13::{Log, C, M, MB, MK, ML};
use vcore::report::Report;
#[cfg(feature = "trace")]
use vcore::report::Violation;

#[cfg(not(feature = "trace"))]
pub fn run(_tier: &str, rep: &mut Report) {
    rep.notes.push("built without the trace feature: nothing checked".into());
}

#[cfg(feature = "trace")]
fn check_events(ev: &[logos::verif::Event]) -> (Option<String>, u64) {
    use logos::verif::Event;
    let (mut start, mut last, mut far, mut reads) = (0usize, 0usize, 0usize, 0u64);
    let mut bad = None;
    let mut attempts = 0u64;
    let finish = |reads: u64, start: usize, far: usize, bad: &mut Option<String>| {
        let span = far.saturating_sub(start) as u64 + 1;
        if reads > 2 * span + 6 {
            *bad = Some(format!("{reads} reads for {span} bytes examined (bound {})", 2 * span + 6));
        }
    };
    for e in ev {
        match *e {
            Event::Next(o) | Event::Restart(o) => {
                if reads > 0 {
                    finish(reads, start, far, &mut bad);
                }
                attempts += 1;
                start = o;
                last = o;
                far = o;
                reads = 0;
            }
            Event::Read(o, size) => {
                if o < last {
                    bad = Some(format!("read at offset {o} after a read at {last} in the same attempt (attempt start {start})"));
                }
                if o < start {
                    bad = Some(format!("read at offset {o} before the attempt start {start}"));
                }
                last = o;
                far = far.max(o.saturating_add(size.max(1)) - 1);
                reads += 1;
            }
        }
    }
    if reads > 0 {
        finish(reads, start, far, &mut bad);
    }
    (bad, attempts)
}

#[cfg(feature = "trace")]
fn trace_str<'s, T>(input: &'s str) -> Vec<logos::verif::Event>
where
    T: logos::Logos<'s, Source = str, Extras = Log>,
{
    crate::tick(|| format!("enum {}, input {input:?}", std::any::type_name::<T>()));
    let mut lex = logos::Lexer::<T>::new(input);
    logos::verif::start();
    let mut n = 0;
    while lex.next().is_some() {
        n += 1;
        if n > input.len() + 2 {
            break;
        }
    }
    logos::verif::stop()
}

#[cfg(feature = "trace")]
pub fn run(tier: &str, rep: &mut Report) {
    let l = if tier == "thorough" { 4 } else { 3 };
    rep.bounds.insert("rule".into(), format!("read traces (verif_hooks) of the callback-carrying enums M, C, ML, MB built by the real derive, on all strings of <= {l} symbols over their alphabets (+2 for the small alphabets): within every attempt (next or restart after a skip, including skips and rejections decided by callbacks) read offsets never decrease, never precede the attempt start, and reads <= 2 x bytes examined + 6"));
    let mut complain = |rep: &mut Report, name: &str, input: &str, m: String| {
        if rep.violations.len() < 12 {
            rep.violations.push(Violation { key: format!("BACKTRACK/{name}/{input}"), tag: "BACKTRACK".into(), case: format!("enum {name} (real derive, callbacks), input {input:?}"), detail: m, replay: serde_json::json!({"kind": "vderive", "prop": "C20", "enum": name, "input": input, "tag": "BACKTRACK"}) });
        }
    };
    let named_alpha: Vec<&str> = vec!["a", "b", "c", "d", "e", "f", "g", "h", "i", "j", "k", "l", "m", "n", "o", "p", "u", "v", "w", "x", "y", "z", "0", "1", "7", "q", " ", "!", "é", "r", "s", "t"];
    let clos_alpha: Vec<&str> = vec!["a", "b", "c", "d", "e", "f", "g", "i", "j", "o", "p", "w", "y", "0", "1", " ", "!", "é", "h"];
    let mut go = |rep: &mut Report, name: &str, input: &str, ev: Vec<logos::verif::Event>| {
        let (bad, attempts) = check_events(&ev);
        rep.count("evaluations", 1);
        rep.count("traces_validated_against_impl", 1);
        rep.count("attempts", attempts);
        rep.count("read_events", ev.len() as u64);
        if attempts > 2 {
            rep.count("distinct_nontrivial", 1);
        }
        if let Some(m) = bad {
            complain(rep, name, input, m);
        }
    };
    crate::c13::strings(&named_alpha, l, &mut |s| go(rep, "M", s, trace_str::<M>(s)));
    crate::c13::strings(&clos_alpha, l, &mut |s| go(rep, "C", s, trace_str::<C>(s)));
    crate::c13::strings(&["l", "e", "t", "n", "d", " ", "\n", "!", "é", "x", "X"], l + 2, &mut |s| go(rep, "ML", s, trace_str::<ML>(s)));
    crate::c13::strings(&["/", "*", "r", "e", "m", "a", " ", "\n", "=", "é"], l + 2, &mut |s| go(rep, "MK", s, trace_str::<MK>(s)));
    crate::c13::strings(&["r", "s", "t", " ", "v", "1", "a"], l + 2, &mut |s| go(rep, "M", s, trace_str::<M>(s)));
    for s in ["12 345 6", "b1 b11 b111 e11 e1 c11 c111 h1 h11 j111 y11 z111", "uuuu a uu", "g1g11g111 i11i1 m11 n11"] {
        go(rep, "M", s, trace_str::<M>(s));
    }
    crate::c13::strings(&["u", "s", "a", " ", "x"], l + 3, &mut |s| {
        let mut lex = logos::Lexer::<MB>::new(s.as_bytes());
        logos::verif::start();
        let mut n = 0;
        while lex.next().is_some() {
            n += 1;
            if n > s.len() + 2 {
                break;
            }
        }
        go(rep, "MB", s, logos::verif::stop());
    });
}

pub fn replay(_rec: &serde_json::Value, rep: &mut Report) {
    let mut tmp = Report::new("C20", "vderive", "quick");
    run("quick", &mut tmp);
    rep.violations = tmp.violations.into_iter().take(1).collect();
}
