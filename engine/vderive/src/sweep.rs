//! Full-alphabet sweep (C01 / C02 / C03 / C04): "universal" lexers built by the real derive are run
//! on EVERY input up to a length over all 256 byte values (byte mode) and on every Unicode scalar
//! value (str mode). Layers 1 / 2 reduce inputs to one representative per byte class of the
//! definition, which is exact as long as the runtime treats the bytes of a class alike; this sweep
//! is the check of that assumption: nothing in the runtime or the emitted code may single out a
//! particular byte value or byte sequence (a byte order mark, NUL, 0xFF, a surrogate-looking prefix).
//! The expected run is known by construction (every byte / character is a token or an error of its
//! own, or belongs to a run of its class), so the oracle needs no automaton.
use logos::{Lexer, Logos};
use vcore::report::{Report, Violation};

pub trait Code {
    fn code(&self) -> u8;
}

macro_rules! codes {
    ($t:ident { $($v:ident = $c:expr),* }) => {
        impl Code for $t {
            fn code(&self) -> u8 {
                match self { $($t::$v => $c),* }
            }
        }
    };
}

#[derive(Logos, Debug, PartialEq, Clone, Copy)]
#[logos(utf8 = false)]
pub enum OneByte {
    #[regex(b"(?s:.)")]
    B,
}
codes!(OneByte { B = 0 });

#[derive(Logos, Debug, PartialEq, Clone, Copy)]
#[logos(utf8 = false)]
pub enum Halves {
    #[regex(b"[\\x00-\\x7f]+")]
    Lo,
    #[regex(b"[\\x80-\\xff]+")]
    Hi,
}
codes!(Halves { Lo = 0, Hi = 1 });

#[derive(Logos, Debug, PartialEq, Clone, Copy)]
#[logos(utf8 = false)]
#[logos(skip(b"[\\x80-\\xff]"))]
pub enum SkipHi {
    #[regex(b"[\\x00-\\x7f]")]
    Lo,
}
codes!(SkipHi { Lo = 0 });

#[derive(Logos, Debug, PartialEq, Clone, Copy)]
#[logos(utf8 = false)]
pub enum LowOnly {
    #[regex(b"[a-z]+")]
    W,
}
codes!(LowOnly { W = 0 });

#[derive(Logos, Debug, PartialEq, Clone, Copy)]
pub enum OneChar {
    #[regex("(?s:.)")]
    C,
}
codes!(OneChar { C = 0 });

#[derive(Logos, Debug, PartialEq, Clone, Copy)]
pub enum Widths {
    #[regex("[\\x00-\\x7f]+")]
    W1,
    #[regex("[\\u{80}-\\u{7ff}]+")]
    W2,
    #[regex("[\\u{800}-\\u{ffff}]+")]
    W3,
    #[regex("[\\u{10000}-\\u{10ffff}]+")]
    W4,
}
codes!(Widths { W1 = 0, W2 = 1, W3 = 2, W4 = 3 });

#[derive(Logos, Debug, PartialEq, Clone, Copy)]
#[logos(skip("[\\u{80}-\\u{10ffff}]"))]
pub enum AsciiTok {
    #[regex("[a-z]+")]
    W,
}
codes!(AsciiTok { W = 0 });

#[derive(Logos, Debug, PartialEq, Clone, Copy)]
pub enum AsciiOnly {
    #[regex("[a-z]+")]
    W,
}
codes!(AsciiOnly { W = 0 });

// ---- utf8 = false twins of the str lexers (C12): on valid UTF-8 the two modes must agree on
// every Ok item and on the set of bytes covered by errors, for EVERY character
#[derive(Logos, Debug, PartialEq, Clone, Copy)]
#[logos(utf8 = false)]
pub enum OneCharB {
    #[regex("(?s:.)")]
    C,
}
codes!(OneCharB { C = 0 });

#[derive(Logos, Debug, PartialEq, Clone, Copy)]
#[logos(utf8 = false)]
pub enum WidthsB {
    #[regex("[\\x00-\\x7f]+")]
    W1,
    #[regex("[\\u{80}-\\u{7ff}]+")]
    W2,
    #[regex("[\\u{800}-\\u{ffff}]+")]
    W3,
    #[regex("[\\u{10000}-\\u{10ffff}]+")]
    W4,
}
codes!(WidthsB { W1 = 0, W2 = 1, W3 = 2, W4 = 3 });

#[derive(Logos, Debug, PartialEq, Clone, Copy)]
#[logos(utf8 = false)]
#[logos(skip("[\\u{80}-\\u{10ffff}]"))]
pub enum AsciiTokB {
    #[regex("[a-z]+")]
    W,
}
codes!(AsciiTokB { W = 0 });

#[derive(Logos, Debug, PartialEq, Clone, Copy)]
#[logos(utf8 = false)]
pub enum AsciiOnlyB {
    #[regex("[a-z]+")]
    W,
}
codes!(AsciiOnlyB { W = 0 });

/// error items that are not lower-case ASCII, next to characters of every width: the str lexer
/// rounds error ends to character boundaries, the byte lexer does not - the COVERED BYTES are equal
#[derive(Logos, Debug, PartialEq, Clone, Copy)]
pub enum PunctS {
    #[regex("[a-z]+")]
    W,
    #[regex("[\\u{80}-\\u{10ffff}]")]
    Hi,
}
codes!(PunctS { W = 0, Hi = 1 });

#[derive(Logos, Debug, PartialEq, Clone, Copy)]
#[logos(utf8 = false)]
pub enum PunctB {
    #[regex("[a-z]+")]
    W,
    #[regex("[\\u{80}-\\u{10ffff}]")]
    Hi,
}
codes!(PunctB { W = 0, Hi = 1 });

const ERR: u8 = 255;
type Items = Vec<(u8, usize, usize)>;

// ---------------------------------------------------------------- expectations (by construction)
fn exp_one_byte(b: &[u8], out: &mut Items) {
    out.extend((0..b.len()).map(|i| (0, i, i + 1)));
}
fn exp_halves(b: &[u8], out: &mut Items) {
    let mut p = 0;
    while p < b.len() {
        let hi = b[p] >= 0x80;
        let mut e = p + 1;
        while e < b.len() && (b[e] >= 0x80) == hi {
            e += 1;
        }
        out.push((hi as u8, p, e));
        p = e;
    }
}
fn exp_skip_hi(b: &[u8], out: &mut Items) {
    out.extend((0..b.len()).filter(|i| b[*i] < 0x80).map(|i| (0, i, i + 1)));
}
fn exp_low_only(b: &[u8], out: &mut Items) {
    let mut p = 0;
    while p < b.len() {
        if b[p].is_ascii_lowercase() {
            let mut e = p + 1;
            while e < b.len() && b[e].is_ascii_lowercase() {
                e += 1;
            }
            out.push((0, p, e));
            p = e;
        } else {
            out.push((ERR, p, p + 1));
            p += 1;
        }
    }
}
fn exp_one_char(s: &str, out: &mut Items) {
    out.extend(s.char_indices().map(|(i, c)| (0, i, i + c.len_utf8())));
}
fn exp_widths(s: &str, out: &mut Items) {
    let mut it = s.char_indices().peekable();
    while let Some((i, c)) = it.next() {
        let w = c.len_utf8();
        let mut e = i + w;
        while let Some((j, d)) = it.peek().copied() {
            if d.len_utf8() != w {
                break;
            }
            e = j + w;
            it.next();
        }
        out.push((w as u8 - 1, i, e));
    }
}
/// lower-case runs are tokens; with `skip_rest` every non-ASCII character is skipped, every other
/// character is an error of its own (one byte, rounded up to the end of the character)
fn exp_ascii(s: &str, skip_rest: bool, out: &mut Items) {
    let b = s.as_bytes();
    let mut p = 0;
    while p < b.len() {
        if b[p].is_ascii_lowercase() {
            let mut e = p + 1;
            while e < b.len() && b[e].is_ascii_lowercase() {
                e += 1;
            }
            out.push((0, p, e));
            p = e;
        } else {
            let mut e = p + 1;
            while !s.is_char_boundary(e) {
                e += 1;
            }
            if !(skip_rest && b[p] >= 0x80) {
                out.push((ERR, p, e));
            }
            p = e;
        }
    }
}

// ---------------------------------------------------------------- observation
/// Returns false when the run does not end properly (no final None with an empty span at the end,
/// or more items than bytes).
fn observe<'s, T>(mut lex: Lexer<'s, T>, len: usize, out: &mut Items) -> bool
where
    T: Logos<'s> + Code,
{
    loop {
        match lex.next() {
            Some(r) => {
                let sp = lex.span();
                out.push((r.map(|t| t.code()).unwrap_or(ERR), sp.start, sp.end));
                if out.len() > len + 1 {
                    return false;
                }
            }
            None => {
                let sp = lex.span();
                return sp.start == len && sp.end == len && lex.next().is_none();
            }
        }
    }
}

struct Acc {
    runs: u64,
    next_calls: u64,
    bad: Vec<(String, Vec<u8>, String)>,
}

fn case_bytes<T>(name: &str, input: &[u8], partial: bool, exp: fn(&[u8], &mut Items), want: &mut Items, got: &mut Items, acc: &mut Acc)
where
    T: for<'s> Logos<'s, Source = [u8]> + Code,
    for<'s> <T as Logos<'s>>::Extras: Default,
{
    want.clear();
    got.clear();
    exp(input, want);
    let r = std::panic::catch_unwind(std::panic::AssertUnwindSafe(|| {
        let lex = if partial { Lexer::<T>::new_partial(input) } else { Lexer::<T>::new(input) };
        observe(lex, input.len(), got)
    }));
    acc.runs += 1;
    acc.next_calls += got.len() as u64 + 1;
    let ok = matches!(r, Ok(true)) && got == want;
    if !ok && acc.bad.len() < 6 {
        acc.bad.push((format!("{name}{}", if partial { " (partial)" } else { "" }), input.to_vec(), format!("items {:?}{}, expected {:?} then None at the end", got, if r.is_err() { " then a PANIC" } else { "" }, want)));
    }
}

fn case_str<T>(name: &str, input: &str, partial: bool, exp: &dyn Fn(&str, &mut Items), want: &mut Items, got: &mut Items, acc: &mut Acc)
where
    T: for<'s> Logos<'s, Source = str> + Code,
    for<'s> <T as Logos<'s>>::Extras: Default,
{
    want.clear();
    got.clear();
    exp(input, want);
    let r = std::panic::catch_unwind(std::panic::AssertUnwindSafe(|| {
        let lex = if partial { Lexer::<T>::new_partial(input) } else { Lexer::<T>::new(input) };
        let ok = observe(lex, input.len(), got);
        ok && got.iter().all(|(_, s, e)| input.is_char_boundary(*s) && input.is_char_boundary(*e))
    }));
    acc.runs += 1;
    acc.next_calls += got.len() as u64 + 1;
    let ok = matches!(r, Ok(true)) && got == want;
    if !ok && acc.bad.len() < 6 {
        acc.bad.push((format!("{name}{}", if partial { " (partial)" } else { "" }), input.as_bytes().to_vec(), format!("items {:?}{}, expected {:?} then None at the end", got, if r.is_err() { " then a PANIC" } else { "" }, want)));
    }
}

/// the same definition in str mode and with utf8 = false on one valid UTF-8 input
fn case_modes<TS, TB>(name: &str, input: &str, partial: bool, a: &mut Items, b: &mut Items, acc: &mut Acc)
where
    TS: for<'s> Logos<'s, Source = str> + Code,
    for<'s> <TS as Logos<'s>>::Extras: Default,
    TB: for<'s> Logos<'s, Source = [u8]> + Code,
    for<'s> <TB as Logos<'s>>::Extras: Default,
{
    a.clear();
    b.clear();
    let r = std::panic::catch_unwind(std::panic::AssertUnwindSafe(|| {
        let ls = if partial { Lexer::<TS>::new_partial(input) } else { Lexer::<TS>::new(input) };
        let lb = if partial { Lexer::<TB>::new_partial(input.as_bytes()) } else { Lexer::<TB>::new(input.as_bytes()) };
        observe(ls, input.len(), a) && observe(lb, input.len(), b)
    }));
    acc.runs += 2;
    acc.next_calls += (a.len() + b.len()) as u64 + 2;
    let oks = |v: &Items| v.iter().filter(|x| x.0 != ERR).cloned().collect::<Vec<_>>();
    let errs = |v: &Items| {
        let mut m = vec![false; input.len() + 1];
        for (_, s, e) in v.iter().filter(|x| x.0 == ERR) {
            for i in *s..(*e).min(input.len()) {
                m[i] = true;
            }
        }
        m
    };
    let ok = matches!(r, Ok(true)) && oks(a) == oks(b) && errs(a) == errs(b);
    if !ok && acc.bad.len() < 6 {
        acc.bad.push((format!("{name} (str mode vs utf8 = false){}", if partial { " (partial)" } else { "" }), input.as_bytes().to_vec(), format!("str mode yields {:?}, utf8 = false yields {:?}{}: the Ok items or the bytes covered by errors differ", a, b, if r.is_err() { " (a PANIC)" } else { "" })));
    }
}

fn all_byte_cases(input: &[u8], want: &mut Items, got: &mut Items, acc: &mut Acc) {
    case_bytes::<OneByte>("OneByte", input, false, exp_one_byte, want, got, acc);
    case_bytes::<OneByte>("OneByte", input, true, exp_one_byte, want, got, acc);
    case_bytes::<Halves>("Halves", input, false, exp_halves, want, got, acc);
    case_bytes::<SkipHi>("SkipHi", input, false, exp_skip_hi, want, got, acc);
    case_bytes::<SkipHi>("SkipHi", input, true, exp_skip_hi, want, got, acc);
    case_bytes::<LowOnly>("LowOnly", input, false, exp_low_only, want, got, acc);
}

fn all_str_cases(input: &str, want: &mut Items, got: &mut Items, acc: &mut Acc) {
    case_modes::<OneChar, OneCharB>("OneChar", input, false, want, got, acc);
    case_modes::<Widths, WidthsB>("Widths", input, false, want, got, acc);
    case_modes::<AsciiTok, AsciiTokB>("AsciiTok", input, false, want, got, acc);
    case_modes::<AsciiOnly, AsciiOnlyB>("AsciiOnly", input, false, want, got, acc);
    case_modes::<PunctS, PunctB>("Punct", input, false, want, got, acc);
    case_str::<OneChar>("OneChar", input, false, &exp_one_char, want, got, acc);
    case_str::<OneChar>("OneChar", input, true, &exp_one_char, want, got, acc);
    case_str::<Widths>("Widths", input, false, &exp_widths, want, got, acc);
    case_str::<AsciiOnly>("AsciiOnly", input, false, &|s, o| exp_ascii(s, false, o), want, got, acc);
    case_str::<AsciiTok>("AsciiTok", input, false, &|s, o| exp_ascii(s, true, o), want, got, acc);
}

pub fn run(tier: &str, rep: &mut Report) {
    // length 3 over all 256 values is 16.7 M inputs x 6 lexer runs (seconds); length 4 (4.3 G
    // inputs) is left to the optimised builds of the thorough tier
    let full3 = true;
    let full4 = !cfg!(debug_assertions) && tier == "thorough";
    let threads = 16usize;
    let silent = std::panic::take_hook();
    std::panic::set_hook(Box::new(|_| {}));
    let mut accs: Vec<Acc> = vec![];
    std::thread::scope(|sc| {
        let hs: Vec<_> = (0..threads)
            .map(|t| {
                sc.spawn(move || {
                    let mut acc = Acc { runs: 0, next_calls: 0, bad: vec![] };
                    let (mut want, mut got): (Items, Items) = (Vec::with_capacity(8), Vec::with_capacity(8));
                    // ---- byte mode: every byte string of length <= 2 (<= 3)
                    if t == 0 {
                        all_byte_cases(&[], &mut want, &mut got, &mut acc);
                    }
                    for a in (t..256).step_by(threads) {
                        let a = a as u8;
                        crate::tick(|| format!("sweep: byte inputs starting with {a:#04x}"));
                        all_byte_cases(&[a], &mut want, &mut got, &mut acc);
                        for b in 0..=255u8 {
                            all_byte_cases(&[a, b], &mut want, &mut got, &mut acc);
                            if full3 {
                                for c in 0..=255u8 {
                                    all_byte_cases(&[a, b, c], &mut want, &mut got, &mut acc);
                                    if full4 {
                                        for d in 0..=255u8 {
                                            all_byte_cases(&[a, b, c, d], &mut want, &mut got, &mut acc);
                                        }
                                    }
                                }
                            }
                        }
                    }
                    // ---- str mode: every scalar value alone, after and before an ASCII letter
                    let mut buf = String::with_capacity(16);
                    let mut n = 0u32;
                    for c in (0..=0x10ffffu32).filter_map(char::from_u32) {
                        n += 1;
                        if n as usize % threads != t {
                            continue;
                        }
                        if n % 4096 == 0 {
                            crate::tick(|| format!("sweep: str inputs around U+{:04X}", c as u32));
                        }
                        for shape in 0..3 {
                            buf.clear();
                            match shape {
                                0 => buf.push(c),
                                1 => {
                                    buf.push('a');
                                    buf.push(c);
                                }
                                _ => {
                                    buf.push(c);
                                    buf.push('a');
                                }
                            }
                            all_str_cases(&buf, &mut want, &mut got, &mut acc);
                        }
                    }
                    // ---- str mode: all strings of <= 3 characters over the characters at which the
                    // UTF-8 encoding, the classes of the definitions or well-known special cases change
                    let special: Vec<char> = [0u32, 0x09, 0x0a, 0x0d, 0x20, 0x60, 0x61, 0x7a, 0x7b, 0x21, 0x3f, 0x7f, 0x80, 0x85, 0xa0, 0xa3, 0xbf, 0xc0, 0xff, 0x100, 0x7ff, 0x800, 0x2028, 0xd7ff, 0xe000, 0xfeff, 0xfffd, 0xfffe, 0xffff, 0x10000, 0x1f60a, 0x10ffff]
                        .iter()
                        .filter_map(|u| char::from_u32(*u))
                        .collect();
                    for (i, a) in special.iter().enumerate() {
                        if i % threads != t {
                            continue;
                        }
                        for b in &special {
                            buf.clear();
                            buf.push(*a);
                            buf.push(*b);
                            all_str_cases(&buf, &mut want, &mut got, &mut acc);
                            for c in &special {
                                buf.clear();
                                buf.push(*a);
                                buf.push(*b);
                                buf.push(*c);
                                all_str_cases(&buf, &mut want, &mut got, &mut acc);
                            }
                        }
                    }
                    acc
                })
            })
            .collect();
        for h in hs {
            accs.push(h.join().expect("sweep worker"));
        }
    });
    std::panic::set_hook(silent);
    for acc in accs {
        rep.count("evaluations", acc.runs);
        rep.count("traces_validated_against_impl", acc.runs);
        rep.count("next_calls", acc.next_calls);
        for (name, input, detail) in acc.bad {
            if rep.violations.len() < 24 {
                rep.violations.push(Violation {
                    key: format!("SWEEP/{name}/{}", vcore::hex(&input)),
                    tag: "SWEEP".into(),
                    case: format!("enum {name}, input {:?} ({} bytes: {})", String::from_utf8_lossy(&input), input.len(), vcore::hex(&input)),
                    detail,
                    replay: serde_json::json!({"kind": "vderive", "prop": "SWEEP", "tag": "SWEEP", "input_hex": vcore::hex(&input)}),
                });
            }
        }
    }
    rep.count("distinct_nontrivial", rep.counts.get("evaluations").copied().unwrap_or(0));
    rep.bounds.insert(
        "rule".into(),
        format!(
            "8 universal lexers (real derive) and 5 str / utf8 = false twins (Ok items and error-covered bytes must agree on every str input): byte mode - every byte string of length <= {} over all 256 values (one byte per token, runs per half, skipped upper half, lower-case runs with one-byte errors; ordinary and partial lexers); str mode - every Unicode scalar value alone, after and before an ASCII letter, and all strings of <= 3 characters over 33 boundary characters (one character per token, runs per encoded width, ASCII words with per-character errors / skips). Oracle by construction: items, spans, char boundaries, final None at the end.",
            if full4 { 4 } else if full3 { 3 } else { 2 }
        ),
    );
}

pub fn replay(rec: &serde_json::Value, rep: &mut Report) {
    let input: Vec<u8> = {
        let h = rec["replay"]["input_hex"].as_str().unwrap_or("");
        (0..h.len() / 2).filter_map(|i| u8::from_str_radix(&h[2 * i..2 * i + 2], 16).ok()).collect()
    };
    let mut acc = Acc { runs: 0, next_calls: 0, bad: vec![] };
    let (mut want, mut got): (Items, Items) = (vec![], vec![]);
    all_byte_cases(&input, &mut want, &mut got, &mut acc);
    if let Ok(s) = std::str::from_utf8(&input) {
        all_str_cases(s, &mut want, &mut got, &mut acc);
    }
    if !acc.bad.is_empty() {
        rep.violations.push(Violation { key: "replay".into(), tag: "SWEEP".into(), case: vcore::hex(&input), detail: "reproduced".into(), replay: serde_json::json!(null) });
    }
}
