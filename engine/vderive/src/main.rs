//! vderive: checks that need the REAL #[derive(Logos)] proc-macro (callbacks, extras, morph).
mod c13;
mod c14;
mod c15;
mod c20;
mod sweep;

use vcore::report::Report;

// ---- watchdog: the sweeps run on a worker thread and report what they are about to do; when a
// next() call never returns the main thread reports the case as a HANG violation and exits
pub static PROGRESS: std::sync::atomic::AtomicU64 = std::sync::atomic::AtomicU64::new(0);
pub static CURRENT: std::sync::Mutex<String> = std::sync::Mutex::new(String::new());

pub fn tick(case: impl FnOnce() -> String) {
    PROGRESS.fetch_add(1, std::sync::atomic::Ordering::Relaxed);
    if let Ok(mut c) = CURRENT.lock() {
        *c = case();
    }
}

fn main() {
    let a: Vec<String> = std::env::args().collect();
    let cmd = a.get(1).cloned().unwrap_or_default();
    let mut prop = String::new();
    let mut tier = "quick".to_string();
    let mut out = String::new();
    let mut file = None;
    let mut i = 2;
    while i + 1 < a.len() {
        match a[i].as_str() {
            "--prop" => prop = a[i + 1].clone(),
            "--tier" => tier = a[i + 1].clone(),
            "--out" => out = a[i + 1].clone(),
            "--file" => file = Some(a[i + 1].clone()),
            "--seed" | "--corpus" => {}
            x => panic!("unknown argument {x}"),
        }
        i += 2;
    }
    let cfg = format!(
        "vderive [{} {} {}]",
        if cfg!(feature = "sm") { "state_machine" } else { "tailcall" },
        if cfg!(feature = "forbid_unsafe") { "forbid_unsafe" } else { "default(unsafe)" },
        if cfg!(debug_assertions) { "dev" } else { "release" }
    );
    let t0 = std::time::Instant::now();
    let (tx, rx) = std::sync::mpsc::channel::<Report>();
    let (prop_w, cfg_w, tier_w, cmd_w) = (prop.clone(), cfg.clone(), tier.clone(), cmd.clone());
    std::thread::Builder::new()
        .stack_size(256 << 20)
        .spawn(move || {
            let (prop, cfg, tier, cmd) = (prop_w, cfg_w, tier_w, cmd_w);
    let mut rep = Report::new(&prop, &cfg, &tier);
    match cmd.as_str() {
        "c13" => c13::run(&tier, &mut rep),
        "c14" => c14::run(&tier, &mut rep),
        "c15" => c15::run(&tier, &mut rep),
        "c20" => c20::run(&tier, &mut rep),
        "sweep" => sweep::run(&tier, &mut rep),
        "replay" => {
            let rec: serde_json::Value = serde_json::from_str(&std::fs::read_to_string(file.expect("--file")).unwrap()).unwrap();
            match rec["replay"]["prop"].as_str().unwrap_or("") {
                "C13" => c13::replay(&rec, &mut rep),
                "C20" => c20::replay(&rec, &mut rep),
                "SWEEP" => sweep::replay(&rec, &mut rep),
                "C14" => {
                    let tag = rec["replay"]["tag"].as_str().unwrap_or("").to_string();
                    let mut tmp = Report::new(&prop, &cfg, &tier);
                    c14::run("quick", &mut tmp);
                    rep.violations = tmp.violations.into_iter().filter(|v| v.tag == tag).take(1).collect();
                }
                _ => {
                    let tag = rec["replay"]["tag"].as_str().unwrap_or("").to_string();
                    let mut tmp = Report::new(&prop, &cfg, &tier);
                    c15::run("quick", &mut tmp);
                    rep.violations = tmp.violations.into_iter().filter(|v| v.tag == tag).take(1).collect();
                }
            }
        }
        x => panic!("unknown command {x}"),
    }
            let _ = tx.send(rep);
        })
        .expect("worker thread");
    let mut last = (PROGRESS.load(std::sync::atomic::Ordering::Relaxed), std::time::Instant::now());
    let limit = std::time::Duration::from_secs(if tier == "thorough" { 120 } else { 45 });
    let mut rep = loop {
        match rx.recv_timeout(std::time::Duration::from_millis(200)) {
            Ok(r) => break r,
            Err(std::sync::mpsc::RecvTimeoutError::Disconnected) => {
                eprintln!("worker thread died");
                std::process::exit(101);
            }
            Err(std::sync::mpsc::RecvTimeoutError::Timeout) => {
                let p = PROGRESS.load(std::sync::atomic::Ordering::Relaxed);
                if p != last.0 {
                    last = (p, std::time::Instant::now());
                } else if last.1.elapsed() > limit {
                    let case = CURRENT.lock().map(|c| c.clone()).unwrap_or_default();
                    let mut r = Report::new(&prop, &cfg, &tier);
                    r.count("evaluations", p);
                    r.violations.push(vcore::report::Violation {
                        key: format!("HANG/{case}"),
                        tag: "HANG".into(),
                        case: case.clone(),
                        detail: format!("no progress for {} s: a call into the lexer never returns", limit.as_secs()),
                        replay: serde_json::json!({"kind": "vderive-hang", "prop": prop, "tag": "HANG", "case": case}),
                    });
                    break r;
                }
            }
        }
    };
    rep.counts.insert("wall_ms".into(), t0.elapsed().as_millis() as u64);
    if out.is_empty() {
        println!("{}", serde_json::to_string_pretty(&rep).unwrap());
    } else {
        rep.write(&out);
        eprintln!("{cfg} {cmd}: evaluations={} states={} violations={} ({} ms)", rep.counts.get("evaluations").copied().unwrap_or(0), rep.counts.get("states").copied().unwrap_or(0), rep.violations.len(), t0.elapsed().as_millis());
    }
    std::process::exit(0);
}
