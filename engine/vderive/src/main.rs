//! vderive: checks that need the REAL #[derive(Logos)] proc-macro (callbacks, extras, morph).
mod c13;
mod c14;
mod c15;
mod c20;

use vcore::report::Report;

fn main() {
    let a: Vec<String> = std::env::args().collect();
    let cmd = a.get(1).cloned().unwrap_or_default();
    let mut prop = String::new();
    let mut tier = "quick".to_string();
    let mut out = String::new();
    let mut file = None;
    let mut i = 2;
    while i + 1 < a.len() {
        match a[i].as_str() {
            "--prop" => prop = a[i + 1].clone(),
            "--tier" => tier = a[i + 1].clone(),
            "--out" => out = a[i + 1].clone(),
            "--file" => file = Some(a[i + 1].clone()),
            "--seed" | "--corpus" => {}
            x => panic!("unknown argument {x}"),
        }
        i += 2;
    }
    let cfg = format!(
        "vderive [{} {} {}]",
        if cfg!(feature = "sm") { "state_machine" } else { "tailcall" },
        if cfg!(feature = "forbid_unsafe") { "forbid_unsafe" } else { "default(unsafe)" },
        if cfg!(debug_assertions) { "dev" } else { "release" }
    );
    let t0 = std::time::Instant::now();
    let mut rep = Report::new(&prop, &cfg, &tier);
    match cmd.as_str() {
        "c13" => c13::run(&tier, &mut rep),
        "c14" => c14::run(&tier, &mut rep),
        "c15" => c15::run(&tier, &mut rep),
        "c20" => c20::run(&tier, &mut rep),
        "replay" => {
            let rec: serde_json::Value = serde_json::from_str(&std::fs::read_to_string(file.expect("--file")).unwrap()).unwrap();
            match rec["replay"]["prop"].as_str().unwrap_or("") {
                "C13" => c13::replay(&rec, &mut rep),
                "C20" => c20::replay(&rec, &mut rep),
                "C14" => {
                    let tag = rec["replay"]["tag"].as_str().unwrap_or("").to_string();
                    let mut tmp = Report::new(&prop, &cfg, &tier);
                    c14::run("quick", &mut tmp);
                    rep.violations = tmp.violations.into_iter().filter(|v| v.tag == tag).take(1).collect();
                }
                _ => {
                    let tag = rec["replay"]["tag"].as_str().unwrap_or("").to_string();
                    let mut tmp = Report::new(&prop, &cfg, &tier);
                    c15::run("quick", &mut tmp);
                    rep.violations = tmp.violations.into_iter().filter(|v| v.tag == tag).take(1).collect();
                }
            }
        }
        x => panic!("unknown command {x}"),
    }
    rep.counts.insert("wall_ms".into(), t0.elapsed().as_millis() as u64);
    if out.is_empty() {
        println!("{}", serde_json::to_string_pretty(&rep).unwrap());
    } else {
        rep.write(&out);
        eprintln!("{cfg} {cmd}: evaluations={} states={} violations={} ({} ms)", rep.counts.get("evaluations").copied().unwrap_or(0), rep.counts.get("states").copied().unwrap_or(0), rep.violations.len(), t0.elapsed().as_millis());
    }
}
