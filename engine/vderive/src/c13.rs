//! C13: callback protocol through the REAL #[derive(Logos)] - every documented return type,
//! named functions and closures, with and without an error callback, against a boring reference.
use logos::{Filter, FilterResult, Lexer, Logos, Skip};
use vcore::report::{Report, Violation};

#[derive(Debug, Clone, PartialEq, Default)]
pub enum MyErr {
    #[default]
    Default,
    Custom(usize),
    At(usize, usize),
}

pub type Log = Vec<(usize, usize, String)>;

fn note<'s, T: Logos<'s, Source = str, Extras = Log>>(lex: &mut Lexer<'s, T>) -> usize {
    let sp = lex.span();
    let s = lex.slice().to_string();
    lex.extras.push((sp.start, sp.end, s));
    sp.end - sp.start
}

// ---------------------------------------------------------------- named callbacks
fn cb_unit<'s, T: Logos<'s, Source = str, Extras = Log>>(lex: &mut Lexer<'s, T>) {
    note(lex);
}
fn cb_bool<'s, T: Logos<'s, Source = str, Extras = Log>>(lex: &mut Lexer<'s, T>) -> bool {
    note(lex) % 2 == 0
}
fn cb_res_unit<'s, T: Logos<'s, Source = str, Extras = Log>>(lex: &mut Lexer<'s, T>) -> Result<(), MyErr> {
    let n = note(lex);
    if n % 3 == 0 { Err(MyErr::Custom(n)) } else { Ok(()) }
}
fn cb_val<'s, T: Logos<'s, Source = str, Extras = Log>>(lex: &mut Lexer<'s, T>) -> usize {
    note(lex)
}
fn cb_opt<'s, T: Logos<'s, Source = str, Extras = Log>>(lex: &mut Lexer<'s, T>) -> Option<usize> {
    let n = note(lex);
    if n % 2 == 0 { None } else { Some(n) }
}
fn cb_res<'s, T: Logos<'s, Source = str, Extras = Log>>(lex: &mut Lexer<'s, T>) -> Result<usize, MyErr> {
    let n = note(lex);
    if n % 3 == 0 { Err(MyErr::Custom(n)) } else { Ok(n) }
}
fn cb_skip<'s, T: Logos<'s, Source = str, Extras = Log>>(lex: &mut Lexer<'s, T>) -> Skip {
    note(lex);
    Skip
}
fn cb_res_skip<'s, T: Logos<'s, Source = str, Extras = Log>>(lex: &mut Lexer<'s, T>) -> Result<Skip, MyErr> {
    let n = note(lex);
    if n % 2 == 0 { Err(MyErr::Custom(n)) } else { Ok(Skip) }
}
fn cb_filter<'s, T: Logos<'s, Source = str, Extras = Log>>(lex: &mut Lexer<'s, T>) -> Filter<usize> {
    let n = note(lex);
    if n % 2 == 0 { Filter::Skip } else { Filter::Emit(n) }
}
fn cb_filter_res<'s, T: Logos<'s, Source = str, Extras = Log>>(lex: &mut Lexer<'s, T>) -> FilterResult<usize, MyErr> {
    let n = note(lex);
    match n % 3 {
        0 => FilterResult::Error(MyErr::Custom(n)),
        1 => FilterResult::Emit(n),
        _ => FilterResult::Skip,
    }
}
fn cb_any<'s>(lex: &mut Lexer<'s, M<'s>>) -> M<'s> {
    M::D(1000 + note(lex))
}
fn cb_any_res<'s>(lex: &mut Lexer<'s, M<'s>>) -> Result<M<'s>, MyErr> {
    let n = note(lex);
    if n % 2 == 0 { Err(MyErr::Custom(n)) } else { Ok(M::D(2000 + n)) }
}
fn cb_any_filter<'s>(lex: &mut Lexer<'s, M<'s>>) -> Filter<M<'s>> {
    let n = note(lex);
    if n % 2 == 0 { Filter::Skip } else { Filter::Emit(M::D(3000 + n)) }
}
fn cb_any_filter_res<'s>(lex: &mut Lexer<'s, M<'s>>) -> FilterResult<M<'s>, MyErr> {
    let n = note(lex);
    match n % 3 {
        0 => FilterResult::Error(MyErr::Custom(n)),
        1 => FilterResult::Emit(M::D(4000 + n)),
        _ => FilterResult::Skip,
    }
}
fn sk_unit<'s, T: Logos<'s, Source = str, Extras = Log>>(lex: &mut Lexer<'s, T>) {
    note(lex);
}
fn sk_skip<'s, T: Logos<'s, Source = str, Extras = Log>>(lex: &mut Lexer<'s, T>) -> Skip {
    note(lex);
    Skip
}
fn sk_res_unit<'s, T: Logos<'s, Source = str, Extras = Log>>(lex: &mut Lexer<'s, T>) -> Result<(), MyErr> {
    let n = note(lex);
    if n % 2 == 0 { Err(MyErr::Custom(n)) } else { Ok(()) }
}
fn sk_res_skip<'s, T: Logos<'s, Source = str, Extras = Log>>(lex: &mut Lexer<'s, T>) -> Result<Skip, MyErr> {
    let n = note(lex);
    if n % 3 == 0 { Err(MyErr::Custom(n)) } else { Ok(Skip) }
}
fn cb_bump<'s, T: Logos<'s, Source = str, Extras = Log>>(lex: &mut Lexer<'s, T>) -> usize {
    let k = lex.remainder().bytes().take_while(|b| *b == b'u').count();
    lex.bump(k);
    note(lex);
    k
}

/// every callback form as a named function; default error
#[derive(Logos, Debug, Clone, PartialEq)]
#[logos(extras = Log, error = MyErr)]
#[logos(skip " +")]
#[logos(skip("w[0-9]*", sk_unit))]
#[logos(skip("x[0-9]*", sk_skip))]
#[logos(skip("y[0-9]*", sk_res_unit))]
#[logos(skip("z[0-9]*", callback = sk_res_skip))]
pub enum M<'s> {
    #[regex("a[0-9]*", cb_unit)]
    A,
    #[regex("a[0-9]*q", cb_unit)]
    AQ,
    #[regex("b[0-9]*", cb_bool)]
    B,
    #[regex("c[0-9]*", cb_res_unit)]
    C,
    #[regex("d[0-9]*", cb_val)]
    D(usize),
    #[token("d7", cb_val, priority = 100)]
    D7(usize),
    #[regex("e[0-9]*", cb_opt)]
    E(usize),
    #[regex("f[0-9]*", callback = cb_res)]
    F(usize),
    #[regex("g[0-9]*", cb_skip)]
    G,
    #[regex("h[0-9]*", cb_res_skip)]
    H,
    #[regex("i[0-9]*", cb_filter)]
    I(usize),
    #[regex("j[0-9]*", cb_filter_res)]
    J(usize),
    #[regex("k[0-9]*", cb_any)]
    K,
    #[regex("l[0-9]*", cb_any_res)]
    L,
    #[regex("m[0-9]*", cb_any_filter)]
    Mm,
    #[regex("n[0-9]*", cb_any_filter_res)]
    N,
    #[regex("o[0-9]*")]
    O,
    #[regex("p[0-9]*")]
    P(&'s str),
    #[regex("u", cb_bump)]
    U(usize),
    #[regex("v[0-9]*", cb_val)]
    V(usize),
    #[regex("v[0-9]*$", cb_unit, priority = 50)]
    VEnd,
    #[regex("[r-t]+", cb_val)]
    Rst(usize),
    #[regex("rst$", cb_unit, priority = 60)]
    RstEnd,
}

/// the same decisions as inline closures, with an error callback
#[derive(Logos, Debug, Clone, PartialEq)]
#[logos(extras = Log)]
#[logos(error(MyErr, callback = |lex| MyErr::At(lex.span().start, lex.span().end)))]
#[logos(skip " +")]
#[logos(skip("w[0-9]*", |lex| { note(lex); }))]
#[logos(skip("y[0-9]*", |lex| { let n = note(lex); if n % 2 == 0 { Err(MyErr::Custom(n)) } else { Ok(()) } }))]
pub enum C<'s> {
    #[regex("a[0-9]*", |lex| { note(lex); })]
    A,
    #[regex("b[0-9]*", |lex| note(lex) % 2 == 0)]
    B,
    #[regex("c[0-9]*", |lex| { let n = note(lex); if n % 3 == 0 { Err(MyErr::Custom(n)) } else { Ok(()) } })]
    C,
    #[regex("d[0-9]*", |lex| note(lex))]
    D(usize),
    #[regex("e[0-9]*", |lex| { let n = note(lex); if n % 2 == 0 { None } else { Some(n) } })]
    E(usize),
    #[regex("f[0-9]*", |lex| { let n = note(lex); if n % 3 == 0 { Err(MyErr::Custom(n)) } else { Ok(n) } })]
    F(usize),
    #[regex("g[0-9]*", |lex| { note(lex); Skip })]
    G,
    #[regex("i[0-9]*", |lex| { let n = note(lex); if n % 2 == 0 { Filter::Skip } else { Filter::Emit(n) } })]
    I(usize),
    #[regex("j[0-9]*", |lex| { let n = note(lex); match n % 3 { 0 => FilterResult::Error(MyErr::Custom(n)), 1 => FilterResult::Emit(n), _ => FilterResult::Skip } })]
    J(usize),
    #[regex("o[0-9]*")]
    O,
    #[regex("p[0-9]*")]
    P(&'s str),
}

/// twin of M restricted to {a, g, i, o, space}: what M skips from callbacks is a skip PATTERN here
#[derive(Logos, Debug, Clone, PartialEq)]
#[logos(extras = Log, error = MyErr)]
#[logos(skip " +")]
#[logos(skip "g[0-9]*")]
#[logos(skip "i[0-9]([0-9][0-9])*")]
pub enum Twin {
    #[regex("a[0-9]*")]
    A,
    #[regex("i([0-9][0-9])*", |lex| lex.slice().len())]
    I(usize),
    #[regex("o[0-9]*")]
    O,
}

/// byte-mode lexer whose callback bumps (possibly exactly to the end of the input)
#[derive(Logos, Debug, Clone, PartialEq)]
#[logos(utf8 = false, extras = u32)]
#[logos(skip " ")]
pub enum MB {
    #[regex("u", |lex| { let k = lex.remainder().iter().take_while(|b| **b == b'u').count(); lex.bump(k); lex.extras += 1; k })]
    U(usize),
    #[regex("s", |lex| { let k = lex.remainder().iter().take_while(|b| **b == b's').count(); lex.bump(k); logos::Skip })]
    S,
    #[token("a")]
    A,
}

/// a look-ahead pattern next to a longer token that continues with the very byte that satisfies
/// the assertion: the state after the keyword is early-accepting for one and on the path of the other
#[derive(Logos, Debug, Clone, PartialEq)]
#[logos(extras = Log, error = MyErr)]
#[logos(skip("!x*", sk_unit, ignore(case)))]
pub enum ML {
    #[regex(r"let(?-u:\b)", cb_val)]
    Kw(usize),
    #[token("let ", cb_unit)]
    KwBlank,
    #[regex("(?m:end$)", cb_val)]
    End(usize),
    #[token("end\n", cb_unit)]
    EndNl,
    #[token(" ")]
    Sp,
    #[token("\n")]
    Nl,
}

// callbacks that bump and then skip (the scan position must be re-read after such a skip)
fn blk<'s>(lex: &mut Lexer<'s, MK>) -> Skip {
    let rest = lex.remainder();
    let n = rest.find("*/").map(|i| i + 2).unwrap_or(rest.len());
    lex.bump(n);
    note(lex);
    Skip
}
fn line<'s>(lex: &mut Lexer<'s, MK>) -> Filter<()> {
    let rest = lex.remainder();
    let n = rest.find('\n').unwrap_or(rest.len());
    lex.bump(n);
    note(lex);
    Filter::Skip
}

/// a user callback that happens to be called `skip` (not logos' own `skip`)
pub mod pragma {
    pub fn skip<'s>(lex: &mut super::Lexer<'s, super::MK>) -> usize {
        super::note(lex)
    }
}

/// block comments opened by a self-looping early-accept state, line comments opened by a keyword
/// with a look-ahead (late accept): both callbacks bump and skip
#[derive(Logos, Debug, Clone, PartialEq)]
#[logos(extras = Log, error = MyErr)]
pub enum MK {
    #[regex(r"/\*+", blk)]
    Blk,
    #[regex(r"(?-u:rem\b)", line, priority = 20)]
    Rem,
    #[regex("[a-z]+", cb_val)]
    W(usize),
    #[regex("=+", pragma::skip)]
    Eq(usize),
    #[token(" ")]
    Sp,
    #[token("\n")]
    Nl,
    #[token("*")]
    St,
    #[token("/")]
    Sl,
}

fn reference_mk(input: &str) -> (Vec<(String, usize, usize)>, Log) {
    let b = input.as_bytes();
    let word = |c: Option<&u8>| matches!(c, Some(b'0'..=b'9' | b'A'..=b'Z' | b'a'..=b'z' | b'_'));
    let (mut items, mut log): (Vec<(String, usize, usize)>, Log) = (vec![], vec![]);
    let mut p = 0;
    while p < b.len() {
        let rest = &b[p..];
        if rest.starts_with(b"/*") {
            let m = 1 + rest[1..].iter().take_while(|c| **c == b'*').count();
            let tail = &input[p + m..];
            let e = p + m + tail.find("*/").map(|i| i + 2).unwrap_or(tail.len());
            log.push((p, e, input[p..e].to_string()));
            p = e;
        } else if rest.starts_with(b"rem") && !word(rest.get(3)) {
            let tail = &input[p + 3..];
            let e = p + 3 + tail.find('\n').unwrap_or(tail.len());
            log.push((p, e, input[p..e].to_string()));
            p = e;
        } else if rest[0].is_ascii_lowercase() {
            let n = rest.iter().take_while(|c| c.is_ascii_lowercase()).count();
            log.push((p, p + n, input[p..p + n].to_string()));
            items.push((format!("Ok(W({n}))"), p, p + n));
            p += n;
        } else {
            if rest[0] == b'=' {
                let n = rest.iter().take_while(|c| **c == b'=').count();
                log.push((p, p + n, input[p..p + n].to_string()));
                items.push((format!("Ok(Eq({n}))"), p, p + n));
                p += n;
                continue;
            }
            let (name, n) = match rest[0] {
                b' ' => ("Ok(Sp)", 1),
                b'\n' => ("Ok(Nl)", 1),
                b'*' => ("Ok(St)", 1),
                b'/' => ("Ok(Sl)", 1),
                _ => {
                    let mut e = 1;
                    while !input.is_char_boundary(p + e) {
                        e += 1;
                    }
                    ("Err(Default)", e)
                }
            };
            items.push((name.to_string(), p, p + n));
            p += n;
        }
    }
    (items, log)
}

fn reference_ml(input: &str) -> (Vec<(String, usize, usize)>, Log) {
    let b = input.as_bytes();
    let word = |c: Option<&u8>| matches!(c, Some(b'0'..=b'9' | b'A'..=b'Z' | b'a'..=b'z' | b'_'));
    let (mut items, mut log): (Vec<(String, usize, usize)>, Log) = (vec![], vec![]);
    let mut p = 0;
    while p < b.len() {
        let rest = &b[p..];
        let (name, n, cb): (String, usize, bool) = if rest.starts_with(b"let ") {
            ("Ok(KwBlank)".into(), 4, true)
        } else if rest.starts_with(b"let") && !word(rest.get(3)) {
            ("Ok(Kw(3))".into(), 3, true)
        } else if rest.starts_with(b"end\n") {
            ("Ok(EndNl)".into(), 4, true)
        } else if rest.starts_with(b"end") && rest.len() == 3 {
            ("Ok(End(3))".into(), 3, true)
        } else if rest[0] == b' ' {
            ("Ok(Sp)".into(), 1, false)
        } else if rest[0] == b'\n' {
            ("Ok(Nl)".into(), 1, false)
        } else if rest[0] == b'!' {
            // a skip with a callback and ignore(case): "!" and every following x / X
            (String::new(), 1 + rest[1..].iter().take_while(|c| **c == b'x' || **c == b'X').count(), true)
        } else {
            let lcp = |kw: &[u8]| kw.iter().zip(rest.iter()).take_while(|(x, y)| x == y).count();
            let mut e = lcp(b"let").max(lcp(b"end")).max(1);
            while !input.is_char_boundary(p + e) {
                e += 1;
            }
            ("Err(Default)".into(), e, false)
        };
        if cb {
            log.push((p, p + n, input[p..p + n].to_string()));
        }
        if !name.is_empty() {
            items.push((name, p, p + n));
        }
        p += n;
    }
    (items, log)
}

/// expected items of MB: (Debug string, start, end)
fn reference_mb(input: &[u8]) -> Vec<(String, usize, usize)> {
    let mut v = vec![];
    let mut p = 0;
    while p < input.len() {
        match input[p] {
            b' ' => p += 1,
            b'a' => {
                v.push(("Ok(A)".to_string(), p, p + 1));
                p += 1;
            }
            c @ (b'u' | b's') => {
                let mut e = p + 1;
                while e < input.len() && input[e] == c {
                    e += 1;
                }
                if c == b'u' {
                    v.push((format!("Ok(U({}))", e - p - 1), p, e));
                }
                p = e;
            }
            _ => {
                v.push(("Err(())".to_string(), p, p + 1));
                p += 1;
            }
        }
    }
    v
}

fn observe_mb(input: &[u8]) -> Vec<(String, usize, usize)> {
    crate::tick(|| format!("enum MB, input {:?}", String::from_utf8_lossy(input)));
    let r = std::panic::catch_unwind(|| {
        let mut lex = Lexer::<MB>::new(input);
        let mut items = vec![];
        while let Some(r) = lex.next() {
            let sp = lex.span();
            items.push((format!("{r:?}"), sp.start, sp.end));
            if items.len() > input.len() + 2 {
                break;
            }
        }
        items
    });
    r.unwrap_or_else(|_| vec![("PANIC".to_string(), 0, 0)])
}


/// closure bodies of several syntactic shapes (a parenthesised operand followed by an operator, a
/// method call on a parenthesised expression, a cast, a lone block, a lone parenthesised
/// expression): the value the closure computes is the value that must arrive in the item
#[derive(Logos, Debug, Clone, PartialEq)]
#[logos(extras = Log)]
#[logos(error(MyErr, callback = |lex| (MyErr::At(lex.span().start, lex.span().end))))]
#[logos(skip " +")]
pub enum CS {
    #[regex("a[0-9]*", |lex| (note(lex)) + 100)]
    A(usize),
    #[regex("b[0-9]*", |lex| (note(lex) % 2 == 0) && false)]
    B,
    #[regex("c[0-9]*", |lex| (note(lex) + 1).pow(2))]
    C(usize),
    #[regex("f[0-9]*", |lex| (note(lex)))]
    F(usize),
    #[regex("g[0-9]*", callback = |lex| { note(lex) })]
    G(usize),
    #[regex("h[0-9]*", |l| (note(l)) as usize * 2)]
    H(usize),
    #[regex("i[0-9]*", |lex| (note(lex) % 2 == 0) || true)]
    I,
}

fn reference_cs(input: &str) -> (Vec<(String, usize, usize)>, Log) {
    let b = input.as_bytes();
    let (mut items, mut log): (Vec<(String, usize, usize)>, Log) = (vec![], vec![]);
    let mut p = 0;
    while p < b.len() {
        let c = b[p];
        if c == b' ' {
            p += 1;
            continue;
        }
        if !b"abcfghi".contains(&c) {
            let mut e = p + 1;
            while !input.is_char_boundary(e) {
                e += 1;
            }
            items.push((format!("Err(At({p}, {e}))"), p, e));
            p = e;
            continue;
        }
        let mut e = p + 1;
        while e < b.len() && b[e].is_ascii_digit() {
            e += 1;
        }
        let n = e - p;
        log.push((p, e, input[p..e].to_string()));
        let it = match c {
            b'a' => format!("Ok(A({}))", n + 100),
            b'b' => format!("Err(At({p}, {e}))"),
            b'c' => format!("Ok(C({}))", (n + 1) * (n + 1)),
            b'f' => format!("Ok(F({n}))"),
            b'g' => format!("Ok(G({n}))"),
            b'h' => format!("Ok(H({}))", 2 * n),
            _ => "Ok(I)".to_string(),
        };
        items.push((it, p, e));
        p = e;
    }
    (items, log)
}


/// leaf numbering: a pattern that never wins anywhere (shadowed by a later, higher-priority twin)
/// is declared FIRST, so every later leaf is shifted; the patterns behind it reach early-accepting,
/// late-accepting and early-and-late-accepting states (word + look-ahead next to word + `!`)
#[derive(Logos, Debug, Clone, PartialEq)]
#[logos(extras = Log, error = MyErr)]
#[logos(skip(" +", sk_unit))]
pub enum MS {
    #[token("let", cb_unit)]
    Shadowed,
    #[token("let", cb_val, priority = 30)]
    Let(usize),
    #[regex(r"[a-z]+(?-u:\b)", cb_val, priority = 5)]
    Word(usize),
    #[regex("[a-z]+!", cb_res, priority = 6)]
    Shout(usize),
    #[regex(r"\?+", cb_filter)]
    Question(usize),
}

fn reference_ms(input: &str) -> (Vec<(String, usize, usize)>, Log) {
    let b = input.as_bytes();
    let (mut items, mut log): (Vec<(String, usize, usize)>, Log) = (vec![], vec![]);
    let word = |c: Option<&u8>| matches!(c, Some(b'0'..=b'9' | b'A'..=b'Z' | b'a'..=b'z' | b'_'));
    let mut p = 0;
    while p < b.len() {
        let c = b[p];
        if c == b' ' {
            let n = b[p..].iter().take_while(|x| **x == b' ').count();
            log.push((p, p + n, input[p..p + n].to_string()));
            p += n;
        } else if c == b'?' {
            let n = b[p..].iter().take_while(|x| **x == b'?').count();
            log.push((p, p + n, input[p..p + n].to_string()));
            if n % 2 != 0 {
                items.push((format!("Ok(Question({n}))"), p, p + n));
            }
            p += n;
        } else if c.is_ascii_lowercase() {
            let n = b[p..].iter().take_while(|x| x.is_ascii_lowercase()).count();
            let e = p + n;
            if b.get(e) == Some(&b'!') {
                // [a-z]+! is longer than anything else
                let n = n + 1;
                log.push((p, p + n, input[p..p + n].to_string()));
                items.push((if n % 3 == 0 { format!("Err(Custom({n}))") } else { format!("Ok(Shout({n}))") }, p, p + n));
                p += n;
            } else if !word(b.get(e)) {
                // the run ends at a word boundary: `let` (priority 30) beats the word
                log.push((p, e, input[p..e].to_string()));
                items.push((if &input[p..e] == "let" { "Ok(Let(3))".to_string() } else { format!("Ok(Word({n}))") }, p, e));
                p = e;
            } else {
                // lower-case run followed by another word byte: no boundary after the run
                if input[p..].starts_with("let") {
                    log.push((p, p + 3, "let".to_string()));
                    items.push(("Ok(Let(3))".to_string(), p, p + 3));
                    p += 3;
                } else {
                    items.push(("Err(Default)".to_string(), p, e));
                    p = e;
                }
            }
        } else {
            let mut e = p + 1;
            while !input.is_char_boundary(e) {
                e += 1;
            }
            items.push(("Err(Default)".to_string(), p, e));
            p = e;
        }
    }
    (items, log)
}

// ---------------------------------------------------------------- the boring reference
#[derive(Clone, Copy, PartialEq)]
pub enum Which {
    Named,
    Closures,
}

fn has(which: Which, c: u8) -> bool {
    match which {
        Which::Named => b"abcdefghijklmnopuvwxyzrst".contains(&c),
        Which::Closures => b"abcdefgijopwy".contains(&c),
    }
}

/// expected (items as Debug strings with spans, callback log)
pub fn reference(input: &str, which: Which) -> (Vec<(String, usize, usize)>, Log) {
    let b = input.as_bytes();
    let mut items = vec![];
    let mut log: Log = vec![];
    let mut p = 0;
    let default_err = |s: usize, e: usize| if which == Which::Closures { format!("Err(At({s}, {e}))") } else { "Err(Default)".to_string() };
    while p < b.len() {
        let c = b[p];
        if c == b' ' {
            while p < b.len() && b[p] == b' ' {
                p += 1;
            }
            continue;
        }
        if !has(which, c) {
            let mut e = p + 1;
            while !input.is_char_boundary(e) {
                e += 1;
            }
            items.push((default_err(p, e), p, e));
            p = e;
            continue;
        }
        if which == Which::Named && matches!(c, b'r' | b's' | b't') {
            let mut e = p;
            while e < b.len() && matches!(b[e], b'r' | b's' | b't') {
                e += 1;
            }
            log.push((p, e, input[p..e].to_string()));
            if &input[p..e] == "rst" && e == b.len() {
                items.push(("Ok(RstEnd)".into(), p, e));
            } else {
                items.push((format!("Ok(Rst({}))", e - p), p, e));
            }
            p = e;
            continue;
        }
        if c == b'u' {
            let mut k = 0;
            while p + 1 + k < b.len() && b[p + 1 + k] == b'u' {
                k += 1;
            }
            let e = p + 1 + k;
            log.push((p, e, input[p..e].to_string()));
            items.push((format!("Ok(U({k}))"), p, e));
            p = e;
            continue;
        }
        let mut e = p + 1;
        while e < b.len() && b[e].is_ascii_digit() {
            e += 1;
        }
        let mut letter = c;
        if which == Which::Named && c == b'a' && e < b.len() && b[e] == b'q' {
            e += 1;
            letter = b'Q'; // AQ
        }
        let n = e - p;
        let text = &input[p..e];
        let is_d7 = which == Which::Named && text == "d7";
        // patterns without a callback
        let cbless = matches!(letter, b'o' | b'p');
        if !cbless {
            log.push((p, e, text.to_string()));
        }
        let custom = format!("Err(Custom({n}))");
        let out: Option<String> = match letter {
            b'a' => Some("Ok(A)".into()),
            b'Q' => Some("Ok(AQ)".into()),
            b'b' => Some(if n % 2 == 0 { "Ok(B)".into() } else { default_err(p, e) }),
            b'c' => Some(if n % 3 == 0 { custom } else { "Ok(C)".into() }),
            b'd' => Some(if is_d7 { format!("Ok(D7({n}))") } else { format!("Ok(D({n}))") }),
            b'e' => Some(if n % 2 == 0 { default_err(p, e) } else { format!("Ok(E({n}))") }),
            b'f' => Some(if n % 3 == 0 { custom } else { format!("Ok(F({n}))") }),
            b'g' => None,
            b'h' => if n % 2 == 0 { Some(custom) } else { None },
            b'i' => if n % 2 == 0 { None } else { Some(format!("Ok(I({n}))")) },
            b'j' => match n % 3 { 0 => Some(custom), 1 => Some(format!("Ok(J({n}))")), _ => None },
            b'k' => Some(format!("Ok(D({}))", 1000 + n)),
            b'l' => Some(if n % 2 == 0 { custom } else { format!("Ok(D({}))", 2000 + n) }),
            b'm' => if n % 2 == 0 { None } else { Some(format!("Ok(D({}))", 3000 + n)) },
            b'n' => match n % 3 { 0 => Some(custom), 1 => Some(format!("Ok(D({}))", 4000 + n)), _ => None },
            b'o' => Some("Ok(O)".into()),
            b'p' => Some(format!("Ok(P({text:?}))")),
            b'v' => Some(if e == b.len() { "Ok(VEnd)".into() } else { format!("Ok(V({n}))") }),
            b'w' | b'x' => None,
            b'y' => if n % 2 == 0 { Some(custom) } else { None },
            b'z' => if n % 3 == 0 { Some(custom) } else { None },
            _ => unreachable!(),
        };
        if let Some(o) = out {
            items.push((o, p, e));
        }
        p = e;
    }
    (items, log)
}

// ---------------------------------------------------------------- callback NAMES
/// User callbacks whose path ends in a name that logos itself gives a meaning to (`skip`), reached
/// through module paths, an import, an associated function - on unit and value variants, with every
/// return type that decides something. The callback that runs must be the user's: its side effect
/// (the log), its decision and its bump all have to show.
pub mod n1 {
    pub fn skip<'s>(lex: &mut super::Lexer<'s, super::MN>) -> bool {
        super::note(lex) % 2 == 0
    }
}
pub mod n2 {
    pub fn skip<'s>(lex: &mut super::Lexer<'s, super::MN>) -> super::Filter<()> {
        if super::note(lex) % 3 == 1 { super::Filter::Skip } else { super::Filter::Emit(()) }
    }
}
pub mod n3 {
    pub fn skip<'s>(lex: &mut super::Lexer<'s, super::MN>) -> Result<super::Skip, super::MyErr> {
        let n = super::note(lex);
        if n % 2 == 0 { Err(super::MyErr::Custom(n)) } else { Ok(super::Skip) }
    }
}
pub mod n4 {
    pub fn skip<'s>(lex: &mut super::Lexer<'s, super::MN>) {
        let k = lex.remainder().bytes().take_while(|c| *c == b'+').count();
        lex.bump(k);
        super::note(lex);
    }
}
pub mod n5 {
    pub fn skip<'s>(lex: &mut super::Lexer<'s, super::MN>) -> super::Skip {
        super::note(lex);
        super::Skip
    }
}
pub mod n6 {
    pub fn skip<'s>(lex: &mut super::Lexer<'s, super::MN>) -> usize {
        super::note(lex)
    }
}
mod mn_def {
    use super::n5::skip;
    use super::{Log, Logos, MyErr};
    #[derive(Logos, Debug, Clone, PartialEq)]
    #[logos(extras = Log, error = MyErr)]
    pub enum MN {
        #[regex("a[0-9]*", super::n1::skip)]
        A,
        #[regex("b[0-9]*", callback = super::n2::skip)]
        B,
        #[regex("c[0-9]*", super::n3::skip)]
        C,
        #[regex("d[0-9]*", super::n4::skip)]
        D,
        #[regex("e[0-9]*", skip)]
        E,
        #[regex("f[0-9]*", logos::skip)]
        F,
        #[regex("g[0-9]*", MN::assoc)]
        G,
        #[regex("h[0-9]*", super::n6::skip)]
        H(usize),
        #[token("i", crate::c13::n1::skip)]
        I,
        #[token(" ")]
        Sp,
        #[token("+")]
        Plus,
    }
    impl MN {
        fn assoc<'s>(lex: &mut super::Lexer<'s, MN>) -> bool {
            super::note(lex) % 2 == 1
        }
    }
}
pub use mn_def::MN;

fn reference_mn(input: &str) -> (Vec<(String, usize, usize)>, Log) {
    let b = input.as_bytes();
    let (mut items, mut log): (Vec<(String, usize, usize)>, Log) = (vec![], vec![]);
    let mut p = 0;
    while p < b.len() {
        let c = b[p];
        if (b'a'..=b'h').contains(&c) {
            let n = 1 + b[p + 1..].iter().take_while(|x| x.is_ascii_digit()).count();
            let mut e = p + n;
            if c == b'd' {
                e += b[e..].iter().take_while(|x| **x == b'+').count();
            }
            if c != b'f' {
                log.push((p, e, input[p..e].to_string()));
            }
            let out = match c {
                b'a' => Some(if n % 2 == 0 { "Ok(A)".to_string() } else { "Err(Default)".to_string() }),
                b'b' => if n % 3 == 1 { None } else { Some("Ok(B)".to_string()) },
                b'c' => if n % 2 == 0 { Some(format!("Err(Custom({n}))")) } else { None },
                b'd' => Some("Ok(D)".to_string()),
                b'e' | b'f' => None,
                b'g' => Some(if n % 2 == 1 { "Ok(G)".to_string() } else { "Err(Default)".to_string() }),
                _ => Some(format!("Ok(H({n}))")),
            };
            if let Some(o) = out {
                items.push((o, p, e));
            }
            p = e;
        } else if c == b'i' {
            log.push((p, p + 1, "i".to_string()));
            items.push(("Err(Default)".to_string(), p, p + 1));
            p += 1;
        } else if c == b' ' || c == b'+' {
            items.push((if c == b' ' { "Ok(Sp)" } else { "Ok(Plus)" }.to_string(), p, p + 1));
            p += 1;
        } else {
            let mut e = p + 1;
            while !input.is_char_boundary(e) {
                e += 1;
            }
            items.push(("Err(Default)".to_string(), p, e));
            p = e;
        }
    }
    (items, log)
}

// ---------------------------------------------------------------- bump x every outcome x every variant kind
/// Every callback of `MR` first BUMPS over the `+` signs that follow its match and then decides
/// (by the length of the match proper) among all outcomes its return type has - on unit variants
/// and on value variants. Whatever the outcome (item, default error, custom error, skip), the
/// bumped bytes belong to the current item / skipped region: its span covers them, the error
/// callback and the next item see the lexer behind them.
fn bumped<'s>(lex: &mut Lexer<'s, MR>) -> usize {
    let n = lex.span().end - lex.span().start;
    let k = lex.remainder().bytes().take_while(|b| *b == b'+').count();
    lex.bump(k);
    note(lex);
    n
}
#[derive(Logos, Debug, Clone, PartialEq)]
#[logos(extras = Log, error(MyErr, callback = |lex| MyErr::At(lex.span().start, lex.span().end)))]
#[logos(skip("m[0-9]*", |lex| { bumped(lex); }))]
#[logos(skip("n[0-9]*", |lex| if bumped(lex) % 2 == 0 { Err(MyErr::Custom(7)) } else { Ok(Skip) }))]
pub enum MR {
    #[regex("a[0-9]*", |lex| bumped(lex) % 2 == 0)]
    A,
    #[regex("b[0-9]*", |lex| { bumped(lex); })]
    B,
    #[regex("c[0-9]*", |lex| { let n = bumped(lex); if n % 4 == 0 { Err(MyErr::Default) } else if n % 2 == 0 { Err(MyErr::Custom(n)) } else { Ok(()) } })]
    C,
    #[regex("d[0-9]*", |lex| { bumped(lex); Skip })]
    D,
    #[regex("e[0-9]*", |lex| { let n = bumped(lex); if n % 2 == 0 { Err(MyErr::Custom(n)) } else { Ok(Skip) } })]
    E,
    #[regex("f[0-9]*", |lex| if bumped(lex) % 2 == 0 { Filter::Skip } else { Filter::Emit(()) })]
    F,
    #[regex("g[0-9]*", |lex| match bumped(lex) % 3 { 0 => FilterResult::Error(MyErr::Custom(0)), 1 => FilterResult::Emit(()), _ => FilterResult::Skip })]
    G,
    #[regex("h[0-9]*", bumped)]
    H(usize),
    #[regex("i[0-9]*", |lex| { let n = bumped(lex); if n % 2 == 0 { None } else { Some(n) } })]
    I(usize),
    // (an Err that EQUALS the default error is still the callback's own error: the error callback is not consulted)
    #[regex("j[0-9]*", |lex| { let n = bumped(lex); if n % 4 == 0 { Err(MyErr::Default) } else if n % 2 == 0 { Err(MyErr::Custom(n)) } else { Ok(n) } })]
    J(usize),
    #[regex("k[0-9]*", |lex| { let n = bumped(lex); if n % 2 == 0 { Filter::Skip } else { Filter::Emit(n) } })]
    K(usize),
    #[regex("l[0-9]*", |lex| { let n = bumped(lex); match n % 3 { 0 => FilterResult::Error(MyErr::Custom(n)), 1 => FilterResult::Emit(n), _ => FilterResult::Skip } })]
    L(usize),
    #[token("+")]
    Plus,
    #[token(" ")]
    Sp,
}

fn reference_mr(input: &str) -> (Vec<(String, usize, usize)>, Log) {
    let b = input.as_bytes();
    let (mut items, mut log): (Vec<(String, usize, usize)>, Log) = (vec![], vec![]);
    let mut p = 0;
    while p < b.len() {
        let c = b[p];
        if (b'a'..=b'n').contains(&c) {
            let n = 1 + b[p + 1..].iter().take_while(|x| x.is_ascii_digit()).count();
            let e = p + n + b[p + n..].iter().take_while(|x| **x == b'+').count();
            log.push((p, e, input[p..e].to_string()));
            let dflt = format!("Err(At({p}, {e}))");
            let out: Option<String> = match c {
                b'a' => Some(if n % 2 == 0 { "Ok(A)".into() } else { dflt }),
                b'b' => Some("Ok(B)".into()),
                b'c' => Some(if n % 4 == 0 { "Err(Default)".into() } else if n % 2 == 0 { format!("Err(Custom({n}))") } else { "Ok(C)".into() }),
                b'd' => None,
                b'e' => if n % 2 == 0 { Some(format!("Err(Custom({n}))")) } else { None },
                b'f' => if n % 2 == 0 { None } else { Some("Ok(F)".into()) },
                b'g' => match n % 3 { 0 => Some("Err(Custom(0))".into()), 1 => Some("Ok(G)".into()), _ => None },
                b'h' => Some(format!("Ok(H({n}))")),
                b'i' => Some(if n % 2 == 0 { dflt } else { format!("Ok(I({n}))") }),
                b'j' => Some(if n % 4 == 0 { "Err(Default)".into() } else if n % 2 == 0 { format!("Err(Custom({n}))") } else { format!("Ok(J({n}))") }),
                b'k' => if n % 2 == 0 { None } else { Some(format!("Ok(K({n}))")) },
                b'l' => match n % 3 { 0 => Some(format!("Err(Custom({n}))")), 1 => Some(format!("Ok(L({n}))")), _ => None },
                b'm' => None,
                _ => if n % 2 == 0 { Some("Err(Custom(7))".into()) } else { None },
            };
            if let Some(o) = out {
                items.push((o, p, e));
            }
            p = e;
        } else if c == b' ' || c == b'+' {
            items.push((if c == b' ' { "Ok(Sp)" } else { "Ok(Plus)" }.to_string(), p, p + 1));
            p += 1;
        } else {
            let mut e = p + 1;
            while !input.is_char_boundary(e) {
                e += 1;
            }
            items.push((format!("Err(At({p}, {e}))"), p, e));
            p = e;
        }
    }
    (items, log)
}

// ---------------------------------------------------------------- ignore(case) x callbacks
/// Every kind of definition that can carry `ignore(case)` carries a callback as well (token on a
/// unit variant deciding by bool / Filter, token on a value variant, regex, skip): the flag changes
/// what is matched and nothing else - the callback still runs, once per winning match, and decides.
/// The decisions depend on the CASE of what was matched, so a callback that is lost, replaced by a
/// default, or run on other text shows.
fn upper_count(s: &str) -> usize {
    s.bytes().filter(|b| b.is_ascii_uppercase()).count()
}
#[derive(Logos, Debug, Clone, PartialEq)]
#[logos(extras = Log, error = MyErr)]
#[logos(skip("rem[0-9]*", |lex| { note(lex); }, ignore(case)))]
pub enum MI {
    #[token("true", |lex| { note(lex); upper_count(lex.slice()) == 0 }, ignore(case))]
    T,
    #[token("null", |lex| { note(lex); if upper_count(lex.slice()) > 0 { Filter::Skip } else { Filter::Emit(()) } }, ignore(case))]
    N,
    #[token("yes", |lex| { note(lex); upper_count(lex.slice()) }, ignore(case))]
    Y(usize),
    #[token("Maybe", callback = |lex| { note(lex); lex.slice().len() + upper_count(lex.slice()) }, ignore(case), priority = 30)]
    M(usize),
    #[regex("k[0-9]*", |lex| { note(lex); 10 * upper_count(lex.slice()) + lex.slice().len() }, ignore(case))]
    K(usize),
    #[token(" ")]
    Sp,
}

fn reference_mi(words: &[&str]) -> (Vec<(String, usize, usize)>, Log) {
    let (mut items, mut log): (Vec<(String, usize, usize)>, Log) = (vec![], vec![]);
    let mut p = 0;
    for w in words {
        let e = p + w.len();
        let lw = w.to_ascii_lowercase();
        let up = upper_count(w);
        if *w != " " {
            log.push((p, e, w.to_string()));
        }
        let out: Option<String> = if *w == " " {
            Some("Ok(Sp)".into())
        } else if lw == "true" {
            Some(if up == 0 { "Ok(T)".into() } else { "Err(Default)".into() })
        } else if lw == "null" {
            if up > 0 { None } else { Some("Ok(N)".into()) }
        } else if lw == "yes" {
            Some(format!("Ok(Y({up}))"))
        } else if lw == "maybe" {
            Some(format!("Ok(M({}))", w.len() + up))
        } else if lw.starts_with("rem") {
            None
        } else {
            Some(format!("Ok(K({}))", 10 * up + w.len()))
        };
        if let Some(o) = out {
            items.push((o, p, e));
        }
        p = e;
    }
    (items, log)
}

// ---------------------------------------------------------------- callbacks holding macro fragments
/// The enum is written by a `macro_rules!` macro and an `$x:expr` fragment (`1 + 1`) stands inside the
/// inline callback: `len * $factor`. The fragment is ONE expression (it arrives in an invisible group);
/// the callback the user wrote computes len * (1 + 1).
macro_rules! scaled_enum {
    ($name:ident, $factor:expr) => {
        #[derive(Logos, Debug, Clone, PartialEq)]
        #[logos(extras = Log, error = MyErr)]
        pub enum $name {
            #[regex("[a-z]+", |lex| { note(lex); lex.slice().len() * $factor })]
            Word(usize),
            // (the same fragment in a body that is not a block)
            #[regex("[0-9]+", |lex| lex.slice().len() * $factor)]
            Num(usize),
            #[token(" ")]
            Sp,
        }
    };
}
scaled_enum!(MX, 1 + 1);

fn reference_mx(input: &str) -> (Vec<(String, usize, usize)>, Log) {
    let (mut items, mut log): (Vec<(String, usize, usize)>, Log) = (vec![], vec![]);
    let mut p = 0;
    for w in input.split_inclusive(' ') {
        let word = w.trim_end_matches(' ');
        if !word.is_empty() && word.as_bytes()[0].is_ascii_digit() {
            items.push((format!("Ok(Num({}))", word.len() * (1 + 1)), p, p + word.len()));
        } else if !word.is_empty() {
            log.push((p, p + word.len(), word.to_string()));
            items.push((format!("Ok(Word({}))", word.len() * (1 + 1)), p, p + word.len()));
        }
        if w.ends_with(' ') {
            items.push(("Ok(Sp)".to_string(), p + word.len(), p + word.len() + 1));
        }
        p += w.len();
    }
    (items, log)
}

fn observe<'s, T>(input: &'s str) -> (Vec<(String, usize, usize)>, Log)
where
    T: Logos<'s, Source = str, Extras = Log> + std::fmt::Debug,
    T::Error: std::fmt::Debug,
{
    crate::tick(|| format!("enum {}, input {input:?}", std::any::type_name::<T>()));
    let r = std::panic::catch_unwind(std::panic::AssertUnwindSafe(|| {
        let mut lex = Lexer::<T>::new(input);
        let mut items = vec![];
        while let Some(r) = lex.next() {
            let sp = lex.span();
            items.push((format!("{r:?}"), sp.start, sp.end));
            if items.len() > input.len() + 2 {
                items.push(("HUNG".into(), 0, 0));
                break;
            }
        }
        (items, std::mem::take(&mut lex.extras))
    }));
    r.unwrap_or_else(|_| (vec![("PANIC".to_string(), 0, 0)], vec![]))
}

pub fn strings(alpha: &[&str], l: usize, f: &mut dyn FnMut(&str)) {
    fn rec(alpha: &[&str], l: usize, buf: &mut String, depth: usize, f: &mut dyn FnMut(&str)) {
        f(buf);
        if depth == l {
            return;
        }
        for a in alpha {
            let n = buf.len();
            buf.push_str(a);
            rec(alpha, l, buf, depth + 1, f);
            buf.truncate(n);
        }
    }
    rec(alpha, l, &mut String::new(), 0, f);
}

fn fnv(h: &mut u64, s: &str) {
    for b in s.bytes() {
        *h ^= b as u64;
        *h = h.wrapping_mul(0x100000001b3);
    }
}

pub fn run(tier: &str, rep: &mut Report) {
    let l = if tier == "thorough" { 4 } else { 3 };
    let named_alpha: Vec<&str> = vec!["a", "b", "c", "d", "e", "f", "g", "h", "i", "j", "k", "l", "m", "n", "o", "p", "u", "v", "w", "x", "y", "z", "0", "1", "7", "q", " ", "!", "é", "r", "s", "t"];
    let clos_alpha: Vec<&str> = vec!["a", "b", "c", "d", "e", "f", "g", "i", "j", "o", "p", "w", "y", "0", "1", " ", "!", "é", "h"];
    let twin_alpha: Vec<&str> = vec!["a", "g", "i", "o", "0", "1", " ", "!"];
    rep.bounds.insert("rule".into(), format!("real #[derive(Logos)] enums carrying callbacks of every documented return type (named functions: enum M, 19 variants + 4 skip callbacks; closures + error callback: enum C); inputs: all strings of <= {l} symbols over alphabets of {} / {} symbols, plus digit runs up to 5; decisions are pure functions of the matched length; oracle: a hand-written reference (first letter + digits) + the documented table; checked: item stream, spans, callback log (one invocation per winning match, none for losers), Skip == skip pattern (twin enum), bump extends the item. Non-trivial = the expected stream invokes at least one callback whose outcome is not a plain Emit, or an error, or a skip.", named_alpha.len(), clos_alpha.len()));
    let mut digest = 0xcbf29ce484222325u64;
    std::panic::set_hook(Box::new(|_| {}));
    let mut check = |rep: &mut Report, name: &str, input: &str, got: (Vec<(String, usize, usize)>, Log), want: (Vec<(String, usize, usize)>, Log), digest: &mut u64| {
        rep.count("evaluations", 1);
        rep.count("traces_validated_against_impl", 1);
        let nontrivial = want.0.iter().any(|i| i.0.starts_with("Err")) || want.1.len() > want.0.len();
        if nontrivial {
            rep.count("distinct_nontrivial", 1);
        }
        fnv(digest, input);
        for i in &got.0 {
            fnv(digest, &i.0);
            fnv(digest, &format!("{}-{}", i.1, i.2));
        }
        for l in &got.1 {
            fnv(digest, &format!("{l:?}"));
        }
        if got.0 != want.0 && rep.violations.len() < 12 {
            rep.violations.push(Violation {
                key: format!("CALLBACK-RESULT/{name}/{input}"),
                tag: "CALLBACK-RESULT".into(),
                case: format!("enum {name}, input {input:?}"),
                detail: format!("items {:?}, documented table gives {:?}", got.0, want.0),
                replay: serde_json::json!({"kind": "vderive", "prop": "C13", "enum": name, "input": input, "tag": "CALLBACK-RESULT"}),
            });
        } else if got.1 != want.1 && rep.violations.len() < 12 {
            rep.violations.push(Violation {
                key: format!("CALLBACK-LOG/{name}/{input}"),
                tag: "CALLBACK-LOG".into(),
                case: format!("enum {name}, input {input:?}"),
                detail: format!("callback invocations (span, slice) {:?}, expected {:?}", got.1, want.1),
                replay: serde_json::json!({"kind": "vderive", "prop": "C13", "enum": name, "input": input, "tag": "CALLBACK-LOG"}),
            });
        }
    };
    strings(&named_alpha, l, &mut |s| check(rep, "M", s, observe::<M>(s), reference(s, Which::Named), &mut digest));
    strings(&clos_alpha, l, &mut |s| check(rep, "C", s, observe::<C>(s), reference(s, Which::Closures), &mut digest));
    // look-ahead keyword next to the longer token continuing with the asserting byte
    strings(&["l", "e", "t", "n", "d", " ", "\n", "!", "é", "x", "X"], l + 2, &mut |s| check(rep, "ML", s, observe::<ML>(s), reference_ml(s), &mut digest));
    for s in ["let let\nend\nend", "let!let letx end", "!xXxX let !X\nend", "x!X!x end", "end\n\nend end\nlet", "letend", "endlet \n"] {
        check(rep, "ML", s, observe::<ML>(s), reference_ml(s), &mut digest);
    }
    // callbacks that bump and skip
    strings(&["/", "*", "r", "e", "m", "a", " ", "\n", "=", "é"], l + 2, &mut |s| check(rep, "MK", s, observe::<MK>(s), reference_mk(s), &mut digest));
    for s in ["/*abc*/x", "/***/a/**/", "rem=abc\nz", "a rem x*/\nrem", "/* rem\n*/rem", "remx rem", "/*", "rem"] {
        check(rep, "MK", s, observe::<MK>(s), reference_mk(s), &mut digest);
    }
    // shifted leaf numbering in front of early / late / early-and-late accepting states
    strings(&["l", "e", "t", "x", "!", "?", " ", "A", "é"], l + 2, &mut |s| check(rep, "MS", s, observe::<MS>(s), reference_ms(s), &mut digest));
    for s in ["let let! hey! hey?? lets", "xlet let!x tel", "a!b! ??? lett", "hey!let"] {
        check(rep, "MS", s, observe::<MS>(s), reference_ms(s), &mut digest);
    }
    // user callbacks whose path ends in `skip` (modules, import, associated function)
    strings(&["a", "b", "c", "d", "e", "f", "g", "h", "i", "1", "+", " ", "é"], l + 1, &mut |s| check(rep, "MN", s, observe::<MN>(s), reference_mn(s), &mut digest));
    for s in ["a1 b c1 d++e f1g h12i", "d1+++ d+a12", "c12c1 b1b12b123", "e1e f f1 g12g"] {
        check(rep, "MN", s, observe::<MN>(s), reference_mn(s), &mut digest);
    }
    // bump, then every outcome, on unit and value variants and in skip callbacks
    for letter in "abcdefghijklmn".chars() {
        for digits in ["", "1", "12", "123"] {
            for plus in 0..=3usize {
                for tail in ["", " ", "a", "h1", "é", "d+"] {
                    let s = format!("{letter}{digits}{}{tail}", "+".repeat(plus));
                    check(rep, "MR", &s, observe::<MR>(&s), reference_mr(&s), &mut digest);
                    let s = format!("+ {letter}{digits}{}{tail}", "+".repeat(plus));
                    check(rep, "MR", &s, observe::<MR>(&s), reference_mr(&s), &mut digest);
                }
            }
        }
    }
    strings(&["a", "c1", "i", "g12", "d", "n1", "+", " ", "é"], l + 1, &mut |s| check(rep, "MR", s, observe::<MR>(s), reference_mr(s), &mut digest));
    // ignore(case) next to callbacks of every kind
    {
        let words = ["true", "TRUE", "True", "null", "NULL", "nulL", "yes", "YeS", "maybe", "MAYBE", "rem1", "REM", "Rem12", "k1", "K12", "k", " "];
        fn rec(words: &[&str], l: usize, cur: &mut Vec<usize>, f: &mut dyn FnMut(&[usize])) {
            f(cur);
            if cur.len() == l {
                return;
            }
            for i in 0..words.len() {
                cur.push(i);
                rec(words, l, cur, f);
                cur.pop();
            }
        }
        let mut seqs: Vec<Vec<usize>> = vec![];
        rec(&words, l.min(3), &mut vec![], &mut |c| seqs.push(c.to_vec()));
        for sq in seqs {
            // a digit-ended word followed by a digit-started one would merge: none starts with a digit
            let ws: Vec<&str> = sq.iter().map(|i| words[*i]).collect();
            let s: String = ws.concat();
            check(rep, "MI", &s, observe::<MI>(&s), reference_mi(&ws), &mut digest);
        }
    }
    // a macro fragment inside an inline callback
    for s in ["abc", "ab cde", "123", "abc 12345 de"] {
        check(rep, "MX", s, observe::<MX>(s), reference_mx(s), &mut digest);
    }
    // closure bodies of several syntactic shapes
    strings(&["a", "b", "c", "f", "g", "h", "i", "0", "1", " ", "!", "é"], l + 1, &mut |s| check(rep, "CS", s, observe::<CS>(s), reference_cs(s), &mut digest));
    // longer digit runs and bump runs
    for letter in "abcdefghijklmnopvwxyz".chars() {
        for n in 0..=5 {
            for tail in ["", " ", "q", "a", "!", "7"] {
                let s = format!("{letter}{}{tail}", "1".repeat(n));
                check(rep, "M", &s, observe::<M>(&s), reference(&s, Which::Named), &mut digest);
                let s2 = format!("{letter}{}7{tail}", "0".repeat(n));
                check(rep, "M", &s2, observe::<M>(&s2), reference(&s2, Which::Named), &mut digest);
                if has(Which::Closures, letter as u8) {
                    check(rep, "C", &s, observe::<C>(&s), reference(&s, Which::Closures), &mut digest);
                }
            }
        }
    }
    // the end-anchored pairs (v / vEnd, [r-t]+ / rst$) on longer inputs over their own alphabet
    strings(&["r", "s", "t", " ", "v", "1", "a"], l + 2, &mut |s| check(rep, "M", s, observe::<M>(s), reference(s, Which::Named), &mut digest));
    for n in 1..=9 {
        for tail in ["", "a", " u", "é", "a1u"] {
            let s = format!("{}{tail}", "u".repeat(n));
            check(rep, "M", &s, observe::<M>(&s), reference(&s, Which::Named), &mut digest);
            let s = format!("a{}{tail}", "u".repeat(n));
            check(rep, "M", &s, observe::<M>(&s), reference(&s, Which::Named), &mut digest);
        }
    }
    // bump from callbacks on a byte source, including bumps that end exactly at the end of input
    let mut mb_runs = 0u64;
    strings(&["u", "s", "a", " ", "x"], l + 3, &mut |s| {
        mb_runs += 1;
        let got = observe_mb(s.as_bytes());
        let want = reference_mb(s.as_bytes());
        if got != want && rep.violations.len() < 12 {
            rep.violations.push(Violation {
                key: format!("CALLBACK-BUMP/{s}"),
                tag: "CALLBACK-BUMP".into(),
                case: format!("enum MB (utf8 = false), input {s:?}"),
                detail: format!("items {got:?}, expected {want:?}"),
                replay: serde_json::json!({"kind": "vderive", "prop": "C13", "enum": "MB", "input": s, "tag": "CALLBACK-BUMP"}),
            });
        }
    });
    rep.count("evaluations", mb_runs);
    rep.count("traces_validated_against_impl", mb_runs);
    // Skip from a callback == skip pattern
    let mut twin_runs = 0u64;
    strings(&twin_alpha, l + 2, &mut |s| {
        let (m, _) = observe::<M>(s);
        let (t, _) = observe::<Twin>(s);
        twin_runs += 1;
        if m != t && rep.violations.len() < 12 {
            rep.violations.push(Violation {
                key: format!("SKIP-NOT-TRANSPARENT/{s}"),
                tag: "SKIP-NOT-TRANSPARENT".into(),
                case: format!("input {s:?}"),
                detail: format!("callback Skip gives {m:?}, the same bytes consumed by a skip pattern give {t:?}"),
                replay: serde_json::json!({"kind": "vderive", "prop": "C13", "enum": "Twin", "input": s, "tag": "SKIP-NOT-TRANSPARENT"}),
            });
        }
    });
    let _ = std::panic::take_hook();
    rep.count("evaluations", twin_runs);
    rep.count("twin_comparisons", twin_runs);
    rep.observe("transcript_digest_low32", digest & 0xffff_ffff);
    rep.observe("transcript_digest_high32", digest >> 32);
    rep.samples.push(serde_json::json!({"enum": "M", "input": "c11 g1i1 d7", "observed": format!("{:?}", observe::<M>("c11 g1i1 d7")), "expected": format!("{:?}", reference("c11 g1i1 d7", Which::Named))}));
    rep.samples.push(serde_json::json!({"enum": "C", "input": "b1!e1", "observed": format!("{:?}", observe::<C>("b1!e1"))}));
}

pub fn replay(rec: &serde_json::Value, rep: &mut Report) {
    let r = &rec["replay"];
    let input = r["input"].as_str().unwrap_or("");
    let tag = r["tag"].as_str().unwrap_or("");
    let bad = match r["enum"].as_str().unwrap_or("") {
        "M" => observe::<M>(input) != reference(input, Which::Named),
        "C" => observe::<C>(input) != reference(input, Which::Closures),
        "ML" => observe::<ML>(input) != reference_ml(input),
        "MK" => observe::<MK>(input) != reference_mk(input),
        "CS" => observe::<CS>(input) != reference_cs(input),
        "MS" => observe::<MS>(input) != reference_ms(input),
        "MN" => observe::<MN>(input) != reference_mn(input),
        "MB" => observe_mb(input.as_bytes()) != reference_mb(input.as_bytes()),
        _ => observe::<M>(input).0 != observe::<Twin>(input).0,
    };
    if bad {
        rep.violations.push(Violation { key: "replay".into(), tag: tag.into(), case: input.into(), detail: "reproduced".into(), replay: serde_json::json!(null) });
    }
}
