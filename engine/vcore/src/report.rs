//! Result records handed from the engines to the `check` driver (JSON on a file).
use serde::{Deserialize, Serialize};
use std::collections::BTreeMap;

#[derive(Serialize, Deserialize, Debug, Clone, Default)]
pub struct Violation {
    /// stable identity of the failing case (used by known_findings.json)
    pub key: String,
    pub tag: String,
    /// one-line description of the definition / case
    pub case: String,
    pub detail: String,
    /// everything needed to re-run exactly this case
    pub replay: serde_json::Value,
}

#[derive(Serialize, Deserialize, Debug, Clone, Default)]
pub struct Report {
    pub property: String,
    pub engine: String,
    pub tier: String,
    pub exhaustive: bool,
    pub counts: BTreeMap<String, u64>,
    pub observed: BTreeMap<String, u64>,
    pub violations: Vec<Violation>,
    pub samples: Vec<serde_json::Value>,
    pub notes: Vec<String>,
    pub bounds: BTreeMap<String, String>,
}

impl Report {
    pub fn new(property: &str, engine: &str, tier: &str) -> Report {
        Report { property: property.into(), engine: engine.into(), tier: tier.into(), exhaustive: true, ..Default::default() }
    }
    pub fn count(&mut self, k: &str, n: u64) {
        *self.counts.entry(k.to_string()).or_insert(0) += n;
    }
    pub fn observe(&mut self, k: &str, n: u64) {
        *self.observed.entry(k.to_string()).or_insert(0) += n;
    }
    pub fn merge(&mut self, other: Report) {
        for (k, v) in other.counts {
            *self.counts.entry(k).or_insert(0) += v;
        }
        for (k, v) in other.observed {
            *self.observed.entry(k).or_insert(0) += v;
        }
        self.violations.extend(other.violations);
        for s in other.samples {
            if self.samples.len() < 12 {
                self.samples.push(s);
            }
        }
        self.notes.extend(other.notes);
        self.exhaustive &= other.exhaustive;
    }
    pub fn write(&self, path: &str) {
        std::fs::write(path, serde_json::to_string_pretty(self).unwrap()).expect("write report");
    }
}
