//! Curated definitions: ports of the lexers in the repository's tests, examples, book and
//! benches, plus one definition per code-generator shortcut visible in the source.
use crate::spec::{Pat, Spec};

fn r(p: &str) -> Pat {
    Pat::regex(p)
}
fn t(p: &str) -> Pat {
    Pat::token(p)
}
fn s(p: &str) -> Pat {
    Pat::skip(p)
}

/// (name, spec, heavy) - heavy ones use big Unicode classes and are only explored in thorough runs
/// at Layer 1 but are always compiled.
pub fn curated() -> Vec<(&'static str, Spec, bool)> {
    let mut v: Vec<(&'static str, Spec, bool)> = vec![];
    let mut add = |name: &'static str, utf8: bool, pats: Vec<Pat>| v.push((name, Spec::new(utf8, pats), false));

    // ---- tests/tests/simple.rs
    add("simple_mix", true, vec![
        s(r"[ \t\n\f]+"), r("[a-zA-Z$_][a-zA-Z0-9$_]*"), r("[0-9]+"), r("0b[01]+"), r("0x[0-9a-fA-F]+"),
        t("private"), t("primitive"), t("protected"), t("priv"), t("protectee"), t("in"), t("instanceof"),
        t("byte"), t("."), t(".."), t("..."), t("("), t(")"), t("=>"), t("="), t("=="), t("==="), t("+"), t("++"),
    ]);
    add("simple_bytes_numbers", true, vec![s(r"[ \t\n\f]+"), r("byte|bytes[1-9][0-9]?"), r("int(8|16|24|32|40|48|56|64)"), t("uint8"), t("uint16"), t("uint32")]);
    add("abcs", true, vec![s(r"[ \t\n\f]+"), r("[abc]+").prio(3), r("[cde]+").prio(2), t("abc"), t("cde").prio(7)]);
    // ---- advanced.rs
    add("advanced", true, vec![
        s(r"[ \t\n\f]+"),
        r(r#""([^"\\]|\\t|\\u|\\n|\\")*""#),
        r("0[xX][0-9a-fA-F]+"),
        r("-?[0-9]+"),
        r("[0-9]*\\.[0-9]+([eE][+-]?[0-9]+)?|[0-9]+[eE][+-]?[0-9]+"),
        t("~"), r("~\\?"), r("~%"), r("~[a-z][a-z]+"), r("~[0-9]+-?[\\.0-9a-f]+"), r("~s[0-9]+(\\.\\.[0-9a-f\\.]+)?"), r("~[hm][0-9]+"),
        r("[ąęśćżźńół]+"), r(r"[\u0400-\u04FF]+"), r(r"([#@!\\?][#@!\\?][#@!\\?][#@!\\?])+"), r("try|type|typeof"), t("🦀+"),
    ]);
    add("what_the_heck", true, vec![s(r"[ \t\n\f]+"), r("'(?:'?(?:[[:ascii:][^\\\\']]|\\\\[[:ascii:]]))*'").prio(9), r("(?:/(?:\\\\.|[^\\\\/])+/[a-zA-Z]*)").prio(8), r("(?:'(?:(?:[^'\\\\])|(?:\\\\.))*')").prio(7), r("r#*\"")]);
    // ---- css.rs
    add("css", true, vec![s(r"[ \t\n\f]+"), r("em|ex|ch|rem|vw|vh|vmin|vmax").prio(11), r("cm|mm|Q|in|pc|pt|px").prio(10), r("[+-]?[0-9]*[.]?[0-9]+(?:[eE][+-]?[0-9]+)?").prio(3), r("[-a-zA-Z_][a-zA-Z0-9_-]*"), t("{"), t("}"), t(":"), t(";")]);
    // ---- edgecase.rs
    add("crunch", true, vec![s(" "), r("else|exposed|if|then"), r("[a-z][a-zA-Z0-9]*")]);
    add("numbers", true, vec![s(r"[ \t\n\f]+"), r(r"[0-9][0-9_]*"), r(r"[0-9][0-9_]*\.[0-9][0-9_]*[TGMKkmupfa]"), r(r"[0-9][0-9_]*[TGMKkmupfa]"), r(r"[0-9][0-9_]*\.[0-9][0-9_]*[eE][+-]?[0-9][0-9_]*"), r(r"[0-9][0-9_]*\.[0-9][0-9_]*")]);
    add("benches_strings", true, vec![s(r"[ \t\n\f]+"), r(r#""([^"\\]|\\t|\\u|\\n|\\")*""#), r("[a-zA-Z_$][a-zA-Z0-9_$]*")]);
    add("colors", true, vec![s(" "), t("red"), t("green"), t("blue"), r("[a-z]+")]);
    add("loop_in_loop", true, vec![r("f(f*oo)*")]);
    add("maybe_in_loop", true, vec![r("f(f?oo)*")]);
    add("maybe_at_end", true, vec![r("[0-9A-F][0-9A-F]a?"), r("[a-zA-Z]+")]);
    add("asym_loops", true, vec![r("(abc)+(def|xyz)?"), r("(0+)*x?.0+").greedy()]);
    add("priority_abc", true, vec![r("[abc]+").prio(2), r("[cde]+").prio(3), t("abc").prio(1), t("cde").prio(4)]);
    add("trivia", true, vec![s("[a-f]+"), r("[g-z]+")]);
    add("unicode_ws", true, vec![s(r"\p{Whitespace}+"), r("[a-z]+")]);
    add("unicode_err_split", true, vec![t("a")]);
    add("opt_minus", true, vec![s(r"[ \t\n\f]+"), r("-?[0-9]+"), t("-"), r("-?[0-9]+\\.[0-9]+")]);
    // ---- old_logos_bugs
    add("i160", true, vec![s(" "), t("else"), t("else if"), r("[a-z]+")]);
    add("i173", true, vec![r("[a-z]+").prio(1), t("fizz"), t("buzz"), t("bar").prio(20)]);
    add("i179", true, vec![s(" "), r("[a-zA-Y]+"), r("[a-zA-Z0-9]*[Z][a-zA-Z0-9]*"), t("😎"), t("😁")]);
    add("i180", true, vec![s(r"[ \t\n\f]+"), r("[0-9]+"), t("fast"), t("."), r("[a-zA-Z]+")]);
    add("i181", true, vec![t("a"), t("axb"), r("ax[bc]").prio(5)]);
    add("i185", true, vec![s(" "), t("or"), t("orange").prio(99), r("[a-z]+")]);
    add("i187", true, vec![r("[A-Z][A-Z]*[A-Z]"), r("[A-Z]+").prio(1)]);
    add("i200", true, vec![s(r"[ \t\n\f]+"), r("not[ ]+in"), t("not"), t("in")]);
    add("i201", true, vec![r(r"a(_?a)*"), r(r"a(_?a)*\.a(_?a)*")]);
    add("i202", true, vec![r(r"[0-9][0-9_]*\.[0-9][0-9_]*[eE][+-]?[0-9][0-9_]*"), r(r"[0-9][0-9_]*[eE][+-]?[0-9][0-9_]*")]);
    add("i203", true, vec![r(r"\d(_?\d)*\.\d(_?\d)*([eE][+-]?\d(_?\d)*)?"), r(r"\d(_?\d)*")]);
    add("i213", true, vec![s(r"[ \t\n\f]+"), t("+"), t("-"), t("*"), t("/"), t("("), t(")"), r("[0-9]+")]);
    add("i220", true, vec![r("[0-9]+"), r(r"(\d+[.]\d*f)")]);
    add("i227", true, vec![r("a+b"), t("a")]);
    add("i242", true, vec![r("-?(0[xob])?[0-9][0-9_]*"), t("-")]);
    add("i246", true, vec![r(r"(?m)\(\*([^*]|\*+[^*)])*\*+\)"), t("(")]);
    add("i251", true, vec![r("(0|-?[1-9](_?[0-9])*)"), r("[a-z]+")]);
    add("i256", true, vec![r("[0-9]+"), r(r"\\[0-7]{1,3}"), t("\\")]);
    add("i259", true, vec![r(r#""([^"\\]|\\.)*""#), r("[a-z]+")]);
    add("i265", true, vec![r(r"(xx+|y)+"), t("xx"), r("[a-z]").prio(1)]);
    add("i269", true, vec![r(r"([a-b]+\.)+[a-b]"), r("[a-c]+")]);
    add("i272", true, vec![r("[0-9]+"), r(r"[0-9]+\.[0-9]+"), t("."), t("..")]);
    add("i384", true, vec![r(r"([0123456789]|#_#)*#.#[0123456789](_|#_#)?").greedy(), r("[0-9]+").prio(1)]);
    add("i394", true, vec![r("a|a*b"), r("(A+.)*A+").greedy(), r("c(a*b?)*c")]);
    add("i420", true, vec![r("0*.0+").greedy().prio(5), r("(0+)*.0+").greedy().prio(4)]);
    add("i424", true, vec![s(" "), r("c(a*b?)*c"), r("ca+")]);
    add("i456", true, vec![r("a|b"), r("[a-c]{2}")]);
    add("i461", true, vec![t("a"), t("b"), r(r"\\u\{[^}]*\}"), r("[de]")]);
    add("string_interp", true, vec![r(r#"[^"$\\]+"#), t("${"), t("\""), t("\\n"), t("$")]);
    // ---- book / examples
    add("json", true, vec![s(r"[ \t\r\n\f]+"), t("false"), t("true"), t("null"), t("{"), t("}"), t("["), t("]"), t(":"), t(","),
        r(r"-?(?:0|[1-9]\d*)(?:\.\d+)?(?:[eE][+-]?\d+)?"), r(r#""([^"\\\x00-\x1F]|\\(["\\bnfrt/]|u[a-fA-F0-9]{4}))*""#)]);
    add("brainfuck", true, vec![s(r".|[\r\n]").prio(1), t("<"), t(">"), t("+"), t("-"), t("."), t(","), t("["), t("]")]);
    add("calculator", true, vec![s(r"[ \t\n]+"), t("+"), t("-"), t("*"), t("/"), t("("), t(")"), r("[0-9]+")]);
    add("comments", true, vec![s(r"[ \t\n\f]+"), r(r"/\*([^*]|\*+[^*/])*\*+/"), r("//[^\n]*").greedy(), t("/"), r("[a-z]+")]);
    add("common_regex_float", true, vec![r(r"[0-9]+\.[0-9]+"), r("[0-9]+"), s(" +")]);
    // ---- look-around
    add("eol", true, vec![r("(?m:a+$)").prio(5), r("a+"), t("\n")]);
    add("end_anchor", true, vec![r("ab$"), r("[ab]+").prio(1)]);
    add("word_boundary", true, vec![r(r"if(?-u:\b)"), r("[a-z]+").prio(1), s(" +")]);
    add("half_word", true, vec![r(r"a+(?-u:\b{end-half})"), r("[a-z0-9]+").prio(1), s(" ")]);
    // a look-ahead pattern and a longer pattern that continues with the very byte that satisfies
    // the assertion (states that are both early- and late-accepting)
    add("la_cont_wb", true, vec![r(r"x(?-u:\b)"), t("x-"), r("[a-z]+").prio(1)]);
    add("la_cont_eol", true, vec![r("(?m:end$)"), t("end\n"), r("[a-z]+").prio(1), t("\n")]);
    add("la_cont_let", true, vec![r(r"let(?-u:\b)"), t("let "), r("[a-z]+").prio(1), s(" ")]);
    add("la_cont_half", true, vec![r(r"a+(?-u:\b{end-half})"), r("a+-"), r("[a-z]+").prio(1)]);
    // one leaf that accepts early on one branch and late on another, next to a second leaf matching
    // the plain branch (states that differ only in early vs late accept)
    add("la_alt_merge", true, vec![r(r";|end(?-u:\b)").prio(10), r("[;,.]"), r("[a-z0-9]+").prio(1)]);
    add("la_alt_merge2", true, vec![r("a|b$").prio(9), r("[ab]"), r("[0-9]")]);
    add("la_alt_merge3", true, vec![r("x|y(?m:$)").prio(9), r("[xy]"), t("\n")]);
    add("la_alt_merge_mb", true, vec![r("€|fin$").prio(9), r("[a-zé]+"), t(" ")]);
    add("la_alt_merge_mb2", true, vec![r(r"é|end(?-u:\b)").prio(10), r("[é,.]"), r("[a-z0-9]+").prio(1)]);
    add("la_alt_merge_mb3", true, vec![r("😀|ok(?m:$)").prio(10), r("[😀-😏]|ok"), t("\n")]);
    add("la_alt_merge_skip", true, vec![s(r";|#(?-u:\b)").prio(10), r("[;#]"), r("[a-z]+")]);
    // one leaf completing unconditionally on one branch and through a look-ahead on another, both
    // ending in the same match state
    add("la_alt_shared", true, vec![r(r"a(?-u:\b)|b"), r("[0-9]")]);
    add("la_alt_shared2", true, vec![r(r"[0-9]+(?-u:\b)|[0-9]+\.[0-9]+"), s(" "), r("[a-z]+")]);
    add("la_alt_shared3", true, vec![r("x$|y"), r("[a-z]").prio(1)]);
    add("la_alt_shared4", true, vec![r("(?m:ab$)|ab;|c"), r("[a-c;]").prio(1), t("\n")]);
    // a skipped match that is a proper prefix of a longer candidate which then fails (the scan has
    // read past the end of the skip when the skip is taken)
    add("skip_prefix", true, vec![s("ab"), t("abcd"), t("c"), t("e")]);
    add("skip_prefix2", true, vec![s("[0-9]+"), r("[0-9]+\\.[0-9]+"), t("."), r("[a-z]+")]);
    add("skip_prefix3", true, vec![s("--"), t("-->"), t("---x"), t("-"), r("[a-z>]")]);
    // an end-anchored pattern extending a shorter token: after the shorter token has been recorded
    // the only way forward is an end-of-input edge
    add("eoi_extends", true, vec![t("a"), r("ab$")]);
    add("eoi_extends2", true, vec![r("[0-9]+"), r("[0-9]+;$").prio(9), t(";")]);
    add("eoi_extends3", true, vec![t("x"), r("xy(?m:$)"), t("\n"), t("y")]);
    add("eoi_extends_skip", true, vec![s("#"), r("#!$").prio(9), t("!")]);
    // every pattern starts with the same starred group: the state after one round of the group is
    // merged with the root, so the root is re-entered in the middle of a token (and an input can end
    // there), or has a self-loop
    add("root_mid_token", true, vec![r("(xy)*z")]);
    add("root_mid_token2", true, vec![r("(ab)*c"), r("(ab)*d")]);
    add("root_mid_token3", true, vec![r("a*b"), r("a*c")]);
    add("root_mid_token4", true, vec![r("([0-9],)*;"), r("([0-9],)*\\.")]);
    add("root_mid_token5", true, vec![r("(a+b)*c"), s("(a+b)*-")]);
    // classes anchored at 0x00 / ending at 0xff on a non-looping edge followed by an accept, and
    // loops over a single range 0x00..=hi (one-sided comparisons)
    add("class_from_nul", true, vec![r("\\\\[\\x00-\\x7F]"), r("[^\\\\]")]);
    add("class_from_nul2", true, vec![r("e[\\x00-\\x1f]"), r("[a-zé€]")]);
    add("class_to_max", false, vec![Pat::bregex(b"q[\\x80-\\xff]"), Pat::bregex(b"[a-z]")]);
    add("loop_from_nul", true, vec![r("«[\\x00-\\x7F]*»"), r("<[\\x00-\\x3b]*>"), r("[a-z]")]);
    add("loop_from_nul_b", false, vec![Pat::bregex(b"\\xFF[^\\xFF]*\\xFF"), Pat::bregex(b"[a-z]+")]);
    // more than eight self-looping classes that need a look-up table (the tables hold eight bits
    // each), and more than 64 states
    {
        let mut pats = vec![];
        for (i, c) in "abcdefghijkl".chars().enumerate() {
            pats.push(r(&format!("{c}[{c}{}{}_#]+", i % 10, (i + 3) % 10)));
        }
        pats.push(s(" +"));
        add("many_luts", true, pats);
        // K table-tested classes registered before a state that tests TWO such classes at once: the
        // pair sits at table positions (K, K + 1), i.e. inside one 8-bit table or across two tables
        const NAMES: [&str; 6] = ["lut_pair_k5", "lut_pair_k6", "lut_pair_k7", "lut_pair_k8", "lut_pair_k15", "lut_pair_k16"];
        for (name, k) in NAMES.iter().zip([5usize, 6, 7, 8, 15, 16]) {
            let mut pats = vec![];
            let digits = "012345678ABCDEFGH";
            let letters: Vec<char> = "abcdefghijklmnopqrstuvw".chars().collect();
            for (i, d) in digits.chars().take(k).enumerate() {
                // five scattered letters, a different set for every filler
                let cls: String = (0..5).map(|j| letters[(i + 2 * j + (i / 3) * j) % letters.len()]).collect::<std::collections::BTreeSet<char>>().into_iter().collect();
                pats.push(r(&format!("{d}[{cls}z{}]", (b'A' + i as u8) as char)));
            }
            pats.push(r("9[kmoqs]x"));
            pats.push(r("9[lnprt]y"));
            add(*name, true, pats);
        }
        let mut pats: Vec<Pat> = (0..70).map(|i| t(&format!("kw{i:02}"))).collect();
        pats.push(r("[a-z][a-z0-9]*").prio(1));
        pats.push(s("[ \n]+"));
        add("many_tokens", true, pats);
        // leaf counts around 64 / 128 / 256 (whatever keeps a set of leaves in machine words)
        let mut pats: Vec<Pat> = (0..130).map(|i| t(&format!("w{i:03}"))).collect();
        pats.push(r("w[0-9]*").prio(1));
        pats.push(s(" "));
        add("many_tokens130", true, pats);
        let mut pats: Vec<Pat> = (0..258).map(|i| t(&format!("{}{}", (b'a' + (i % 26) as u8) as char, i))).collect();
        pats.push(r("[a-z][0-9]*").prio(1));
        add("many_tokens258", true, pats);
    }
    // a look-ahead pattern next to one that continues on every byte the assertion refuses (the state
    // after the prefix has an edge for all 256 bytes, but not all of them lead to an accept)
    add("la_refused_cont", true, vec![r(r"r(?-u:\b)"), r("r[0-9A-Za-z_]!")]);
    add("la_refused_cont1", true, vec![r(r"r(?-u:\b)"), r("r[0-9A-Za-z_]!"), r("[a-qs-z?]").prio(1)]);
    add("la_refused_cont2", true, vec![r("if(?m:$)"), r("if[^\\n]x"), t("\n")]);
    add("la_refused_cont3", false, vec![r(r"k(?-u:\B)"), r("k[^0-9A-Za-z_];")]);
    // alternations with an empty / optional-only branch (also the ones regex-syntax creates by
    // factoring out a common prefix) next to a literal token matched through that branch
    add("alt_empty_branch", true, vec![r("(_*|r#)[a-z]+"), t("if")]);
    add("alt_empty_branch2", true, vec![r("foo|foobar"), t("foo").prio(9), r("[a-z]+").prio(1)]);
    add("alt_empty_branch3", true, vec![r("(|x)y"), r("(a?|bc)d"), t("y").prio(9), t("d").prio(9)]);
    // skips recognised by a late-accept state (the skip ends in a look-ahead assertion)
    add("skip_la_eol", true, vec![s("//[^\n]*(?m:$)").greedy(), r("[a-z]+"), t("\n"), t("/")]);
    add("skip_la_end", true, vec![s("#[a-z]*$"), r("[a-z]+"), t("#").prio(1)]);
    add("skip_la_wb", true, vec![s(r" +(?-u:\b)"), r("[a-z]+"), t(" ").prio(1)]);
    add("skip_la_bytes", false, vec![s("//[^\n]*(?m:$)").greedy(), r("[a-z]+"), t("\n")]);
    // a LATE-accepting state with an edge to itself (the self-loop byte satisfies the trailing
    // look-ahead): the match end has to be recorded for every byte the unrolled loop consumes
    add("late_selfloop", true, vec![r(r"a+(?-u:\B)"), r("[0-9]+")]);
    add("late_selfloop2", true, vec![r(r"(?m)a\n*$"), r("[a-z]").prio(1)]);
    add("late_selfloop3", false, vec![Pat::bregex(br"\$[a-z]*(?-u:\B)"), Pat::bregex(b"[ ,]")]);
    add("late_selfloop_skip", true, vec![s(r"#+(?-u:\B)"), r("[a-z#]").prio(1)]);
    // byte-mode delimited literals: a non-accepting loop state whose only exit is the exact
    // complement of its self-loop (in str mode the complement fans out over the UTF-8 lead bytes)
    add("delim_bytes", false, vec![Pat::bregex(b"\"[^\"]*\""), Pat::bregex(b"[a-z]+"), Pat::skip(" ")]);
    add("delim_bytes2", false, vec![Pat::bregex(b"'[^']*'"), Pat::bregex(b"<[^>]*>").prio(9), Pat::bregex(b"[^'<]").prio(1)]);
    add("delim_bytes3", false, vec![Pat::bregex(b"#[^\n]*\n").greedy(), Pat::bregex(b"[a-z #]").prio(1)]);
    add("delim_bytes_skip", false, vec![Pat::skip("/[^/]*/"), Pat::bregex(b"[a-z]+")]);
    // byte classes that wrap around 0xff on two mutually linked loop states
    add("wrap_class_loops", false, vec![Pat::bregex(b"([^a-z]+|[a-z]+)+")]);
    add("wrap_class_loops2", false, vec![Pat::bregex(b"([\\x00-\\x10\\xFF]+|[a-z]+)+"), Pat::bregex(b"[\\x80-\\xfe]").prio(1)]);
    add("wrap_class_loops3", true, vec![r("([^a-z]+|[a-z]+)+")]);
    // ---- generator shortcuts
    add("sc_two_edges", true, vec![r("a[bc]"), r("a[de]x")]);
    add("sc_three_edges", true, vec![r("ab"), r("ac"), r("ad"), r("ae")]);
    add("sc_one_hole", true, vec![r("[a-ce-g]+"), t("d")]);
    add("sc_two_holes", true, vec![r("[a-ce-gi-k]+x")]);
    add("sc_lut", true, vec![r("[a-cx-z0-3_]+"), t("-")]);
    add("sc_nine_masks", true, vec![r("a[0-4x]+"), r("b[1-5y]+"), r("c[2-6z]+"), r("d[3-7u]+"), r("e[4-8v]+"), r("f[5-9w]+"), r("g[ac-e]+"), r("h[bd-f]+"), r("i[ce-g]+"), r("j[df-h]+")]);
    add("sc_short_loop", true, vec![r("a*b"), s(" ")]);
    add("sc_long_loop", true, vec![r("x[a-z]*;"), r("[0-9]+")]);
    add("sc_late_mixed", true, vec![r("ab|abc*d"), r("a")]);
    add("sc_root_reenter", true, vec![r("(ab)+"), t("a")]);
    add("sc_root_table", true, vec![r("(a(x|yq|zr))*c"), r("[0-9]")]);
    add("sc_root_table2", true, vec![r(r#"(\\(n|x[0-9a-f]|u[0-9a-f][0-9a-f]))*""#), r("[0-9]")]);
    add("sc_skip_only", true, vec![s("a+"), s("b")]);
    add("sc_special_bytes", true, vec![r(r#"[!-/:-@\[-`{-~]+"#), r(r"[\x00-\x1f]+"), t("\x7f")]);
    add("sc_range_ends", true, vec![r(r"[\x00-/]x"), r(r"[\x{80}-\x{10FFFF}]y"), r("[0-9]z")]);
    add("sc_multibyte_mix", true, vec![r("[é-ü]+"), r("€+"), r("😊"), r("[a-zé]+x")]);
    add("sc_icase", true, vec![Pat::token("straße").icase(), Pat::regex("k+").icase(), r("[a-z]+").prio(1)]);
    add("sc_dot", true, vec![r(".b"), r("a.?c")]);
    add("sc_dot_bytes", false, vec![r("(?s-u:.)b"), r("a(?-u:.)?c")]);

    // ---- patterns on which backtracking engines go exponential / quadratic
    add("adv_alt_star", true, vec![r("(a|a)*b"), r("a")]);
    add("adv_star_star", true, vec![r("(a*)*b"), r("a+").prio(1)]);
    add("adv_plus_plus", true, vec![r("(a+)+b"), r("a")]);
    add("adv_overlap", true, vec![r("(a|aa)+b"), r("a+c")]);
    add("adv_nested_opt", true, vec![r("(a?){8}a{8}"), r("a")]);
    add("adv_two_loops", true, vec![r("a*a*a*a*b"), r("a").prio(1)]);
    add("adv_dot_star", true, vec![r("(x.*y)+z").greedy(), r("x").prio(9)]);
    // ---- byte mode
    let b = |p: &[u8]| Pat::bregex(p);
    let bt = |p: &[u8]| Pat::btoken(p);
    v.push(("binary", Spec::new(false, vec![bt(b"\xCA\xFE\xBE\xEF"), b(b"[\xA0-\xAF]+"), b(b"\x42+"), bt(b"foo"), bt(b"\x00")]), false));
    v.push(("bytes_dot", Spec::new(false, vec![b(b"\x00.+").greedy(), bt(b"\xff")]), false));
    v.push(("bytes_unicode_mix", Spec::new(false, vec![r("é+"), b(b"[\x80-\xbf]"), r("[a-z]+"), bt(b"\xc3")]), false));
    v.push(("bytes_icase", Spec::new(false, vec![Pat::btoken(b"\xC3\xA9T\xC3\xA9").icase(), Pat::btoken(b"cET").icase(), b(b"(c|\xC3\xBB|\xC3\xBC)+").prio(1)]), false));
    // ---- subpatterns
    v.push(("subpat_xdigit", Spec::new(true, vec![r("0[xX](?&xdigit)+"), r("(?&xdigit)+").prio(1), s(" ")]).with_sub("xdigit", "[0-9a-fA-F]"), false));
    v.push(("subpat_nested", Spec::new(true, vec![r("~?(?&b)~?"), r("(?&a)+x")]).with_sub("a", "a|b").with_sub("b", "(?&a)c"), false));
    // ---- heavy Unicode
    v.push(("idents_unicode", Spec::new(true, vec![r(r"\p{XID_Start}\p{XID_Continue}*"), r(r"\d+"), s(r"\s+")]), true));
    v.push(("word_w", Spec::new(true, vec![r(r"\w+"), s(r"\p{White_Space}")]), true));
    v.push(("greek_cyrillic", Spec::new(true, vec![r(r"\p{Greek}+"), r(r"\p{Cyrillic}+"), s(" ")]), false));
    v.push(("any_scalar", Spec::new(true, vec![r(r"[\u{0}-\u{10FFFF}]"), t("ab")]), false));
    v
}
