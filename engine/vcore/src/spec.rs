//! Structured lexer definitions ("programs") and their rendering to enum source text.
//!
//! A `Spec` is the harness' own description of a definition. The implementation under test only
//! ever sees the *rendered text*; the reference semantics is built from the structured form.
use serde::{Deserialize, Serialize};

#[derive(Serialize, Deserialize, Clone, Debug, PartialEq, Eq, Hash, PartialOrd, Ord)]
pub enum Lit {
    /// a Rust `"..."` literal
    Str(String),
    /// a Rust `b"..."` literal
    Bytes(Vec<u8>),
}

impl Lit {
    pub fn is_str(&self) -> bool {
        matches!(self, Lit::Str(_))
    }
    pub fn bytes(&self) -> Vec<u8> {
        match self {
            Lit::Str(s) => s.as_bytes().to_vec(),
            Lit::Bytes(b) => b.clone(),
        }
    }
    /// Rust literal syntax
    pub fn render(&self) -> String {
        match self {
            Lit::Str(s) => {
                let mut o = String::from("\"");
                for c in s.chars() {
                    match c {
                        '"' => o.push_str("\\\""),
                        '\\' => o.push_str("\\\\"),
                        '\n' => o.push_str("\\n"),
                        '\r' => o.push_str("\\r"),
                        '\t' => o.push_str("\\t"),
                        '\0' => o.push_str("\\0"),
                        c if (c as u32) < 0x20 || c as u32 == 0x7f => {
                            o.push_str(&format!("\\x{:02x}", c as u32))
                        }
                        c => o.push(c),
                    }
                }
                o.push('"');
                o
            }
            Lit::Bytes(b) => {
                let mut o = String::from("b\"");
                for &x in b {
                    if x.is_ascii_alphanumeric() || x == b' ' {
                        o.push(x as char)
                    } else {
                        o.push_str(&format!("\\x{x:02x}"))
                    }
                }
                o.push('"');
                o
            }
        }
    }
}

#[derive(Serialize, Deserialize, Clone, Copy, Debug, PartialEq, Eq, Hash, PartialOrd, Ord)]
pub enum Kind {
    Token,
    Regex,
    Skip,
}

#[derive(Serialize, Deserialize, Clone, Debug, PartialEq, Eq, Hash)]
pub struct Pat {
    pub kind: Kind,
    pub lit: Lit,
    pub priority: Option<usize>,
    pub icase: bool,
    pub allow_greedy: bool,
    /// raw callback tokens (rendered positionally after the literal)
    pub callback: Option<String>,
}

impl Pat {
    pub fn new(kind: Kind, lit: Lit) -> Pat {
        Pat { kind, lit, priority: None, icase: false, allow_greedy: false, callback: None }
    }
    pub fn regex(p: &str) -> Pat {
        Pat::new(Kind::Regex, Lit::Str(p.to_string()))
    }
    pub fn token(p: &str) -> Pat {
        Pat::new(Kind::Token, Lit::Str(p.to_string()))
    }
    pub fn skip(p: &str) -> Pat {
        Pat::new(Kind::Skip, Lit::Str(p.to_string()))
    }
    pub fn bregex(p: &[u8]) -> Pat {
        Pat::new(Kind::Regex, Lit::Bytes(p.to_vec()))
    }
    pub fn btoken(p: &[u8]) -> Pat {
        Pat::new(Kind::Token, Lit::Bytes(p.to_vec()))
    }
    pub fn prio(mut self, p: usize) -> Pat {
        self.priority = Some(p);
        self
    }
    pub fn icase(mut self) -> Pat {
        self.icase = true;
        self
    }
    pub fn greedy(mut self) -> Pat {
        self.allow_greedy = true;
        self
    }
    /// the attribute arguments in canonical order: literal, callback, priority, allow_greedy,
    /// ignore(case)
    pub fn args(&self) -> String {
        let mut a = self.lit.render();
        if let Some(cb) = &self.callback {
            a.push_str(", ");
            a.push_str(cb);
        }
        if let Some(p) = self.priority {
            a.push_str(&format!(", priority = {p}"));
        }
        if self.allow_greedy {
            a.push_str(", allow_greedy = true");
        }
        if self.icase {
            a.push_str(", ignore(case)");
        }
        a
    }
}

#[derive(Serialize, Deserialize, Clone, Debug, PartialEq, Eq, Hash)]
pub struct Spec {
    pub utf8: bool,
    /// (name, source) in definition order
    pub subpatterns: Vec<(String, Lit)>,
    /// skips first, then the variants; index = leaf index = variant `V<i>`
    pub pats: Vec<Pat>,
}

impl Spec {
    pub fn new(utf8: bool, mut pats: Vec<Pat>) -> Spec {
        // stable: skips first (this is the order in which the derive numbers its leaves)
        pats.sort_by_key(|p| if p.kind == Kind::Skip { 0 } else { 1 });
        Spec { utf8, subpatterns: vec![], pats }
    }
    pub fn with_sub(mut self, name: &str, src: &str) -> Spec {
        self.subpatterns.push((name.to_string(), Lit::Str(src.to_string())));
        self
    }
    pub fn with_bsub(mut self, name: &str, src: &[u8]) -> Spec {
        self.subpatterns.push((name.to_string(), Lit::Bytes(src.to_vec())));
        self
    }
    pub fn bytes_mode(mut self) -> Spec {
        self.utf8 = false;
        self
    }
    /// Variant name for leaf `i` (skips have none)
    pub fn variant(&self, i: usize) -> Option<String> {
        (self.pats[i].kind != Kind::Skip).then(|| format!("V{i}"))
    }

    /// Render as an enum item. `enum_name` lets the caller place many of them in one file.
    pub fn render(&self, enum_name: &str, derives: &str) -> String {
        let mut o = String::new();
        if !derives.is_empty() {
            o.push_str(&format!("#[derive({derives})]\n"));
        }
        if !self.utf8 {
            o.push_str("#[logos(utf8 = false)]\n");
        }
        for (n, l) in &self.subpatterns {
            o.push_str(&format!("#[logos(subpattern {n} = {})]\n", l.render()));
        }
        for p in &self.pats {
            if p.kind == Kind::Skip {
                if p.priority.is_none() && !p.icase && !p.allow_greedy && p.callback.is_none() {
                    o.push_str(&format!("#[logos(skip {})]\n", p.lit.render()));
                } else {
                    o.push_str(&format!("#[logos(skip({}))]\n", p.args()));
                }
            }
        }
        o.push_str(&format!("pub enum {enum_name} {{\n"));
        for (i, p) in self.pats.iter().enumerate() {
            let attr = match p.kind {
                Kind::Skip => continue,
                Kind::Token => "token",
                Kind::Regex => "regex",
            };
            o.push_str(&format!("    #[{attr}({})]\n    V{i},\n", p.args()));
        }
        o.push_str("}\n");
        o
    }

    /// A short one-line description used in reports
    pub fn short(&self) -> String {
        let mut parts = vec![];
        for (n, l) in &self.subpatterns {
            parts.push(format!("sub {n}={}", l.render()));
        }
        for p in &self.pats {
            let k = match p.kind {
                Kind::Token => "token",
                Kind::Regex => "regex",
                Kind::Skip => "skip",
            };
            parts.push(format!("{k}({})", p.args()));
        }
        format!("[{}] {}", if self.utf8 { "str" } else { "bytes" }, parts.join(" ; "))
    }
}
