//! The captured logos `Graph` as plain data, an interpreter that transcribes the semantics of the
//! generated code (generator/mod.rs, fork.rs, leaf.rs), and structural invariants.
use serde::{Deserialize, Serialize};

#[derive(Serialize, Deserialize, Debug, Clone, Default, PartialEq, Eq, Hash)]
pub struct GState {
    pub accept: Option<usize>,
    pub early: Option<usize>,
    /// (inclusive byte ranges, target)
    pub normal: Vec<(Vec<(u8, u8)>, usize)>,
    pub eoi: Option<usize>,
}

#[derive(Serialize, Deserialize, Debug, Clone, Default, PartialEq, Eq, Hash)]
pub struct GLeaf {
    pub priority: usize,
    pub display: String,
    pub skip: bool,
    pub has_callback: bool,
}

#[derive(Serialize, Deserialize, Debug, Clone, Default, PartialEq, Eq, Hash)]
pub struct Graph {
    pub root: usize,
    pub states: Vec<GState>,
    pub leaves: Vec<GLeaf>,
    pub errors: Vec<String>,
}

#[derive(Debug, Clone, PartialEq, Eq, Serialize, Deserialize)]
pub enum Item {
    /// (leaf, start, end)
    Tok(usize, usize, usize),
    /// (start, end)
    Err(usize, usize),
}

impl Item {
    pub fn span(&self) -> (usize, usize) {
        match *self {
            Item::Tok(_, s, e) | Item::Err(s, e) => (s, e),
        }
    }
}

#[derive(Debug, Clone, PartialEq, Eq, Serialize, Deserialize)]
pub struct Run {
    pub items: Vec<Item>,
    /// skipped regions (leaf, start, end)
    pub skips: Vec<(usize, usize, usize)>,
    /// position (token_end) when the iterator returned None
    pub end_pos: usize,
    /// span start when the iterator returned None
    pub end_start: usize,
    /// the interpreter gave up (step budget) - a non-termination symptom
    pub hung: bool,
}

fn round_up_boundary(input: &[u8], mut i: usize, is_str: bool) -> usize {
    if !is_str {
        return i;
    }
    // str::is_char_boundary semantics; beyond len there is no boundary: stop to avoid looping
    while i < input.len() && (input[i] & 0xC0) == 0x80 {
        i += 1;
    }
    i
}

impl Graph {
    pub fn edge(&self, s: usize, b: u8) -> Option<usize> {
        for (rs, t) in &self.states[s].normal {
            if rs.iter().any(|&(lo, hi)| lo <= b && b <= hi) {
                return Some(*t);
            }
        }
        None
    }

    pub fn range_boundaries(&self) -> Vec<u8> {
        let mut v = vec![];
        for st in &self.states {
            for (rs, _) in &st.normal {
                for &(lo, hi) in rs {
                    v.push(lo);
                    if hi < 255 {
                        v.push(hi + 1);
                    }
                }
            }
        }
        v.sort();
        v.dedup();
        v
    }

    /// Structural invariants (tags EOI-STRUCT, STEP / DETERMINISM, ROOT). Returns violations.
    pub fn structural(&self) -> Vec<String> {
        let mut v = vec![];
        let n = self.states.len();
        if self.root >= n {
            v.push(format!("ROOT: root {} out of range", self.root));
            return v;
        }
        let root = &self.states[self.root];
        if root.accept.is_some() || root.early.is_some() {
            v.push("ROOT: the root state records a match (an empty token)".into());
        }
        for (i, st) in self.states.iter().enumerate() {
            let mut cover = [usize::MAX; 256];
            for (rs, t) in &st.normal {
                if *t >= n {
                    v.push(format!("STEP: state {i} has an edge to missing state {t}"));
                }
                for &(lo, hi) in rs {
                    if lo > hi {
                        v.push(format!("STEP: state {i} has an empty range {lo}..={hi}"));
                    }
                    for b in lo..=hi {
                        if cover[b as usize] != usize::MAX && cover[b as usize] != *t {
                            v.push(format!("DETERMINISM: state {i} byte {b:#x} leads to two states"));
                        }
                        cover[b as usize] = *t;
                    }
                }
            }
            for l in [st.accept, st.early].into_iter().flatten() {
                if l >= self.leaves.len() {
                    v.push(format!("STEP: state {i} names missing leaf {l}"));
                }
            }
            if let Some(e) = st.eoi {
                if e >= n {
                    v.push(format!("EOI-STRUCT: state {i} eoi edge to missing state {e}"));
                    continue;
                }
                let t = &self.states[e];
                if t.accept.is_none() || t.early.is_some() {
                    v.push(format!("EOI-STRUCT: eoi edge {i}->{e} into a state that is not a pure late accept"));
                }
                if t.eoi.is_some() || !t.normal.is_empty() {
                    v.push(format!("EOI-STRUCT: eoi target {e} has outgoing edges"));
                }
            }
        }
        v
    }

    /// One `Lexer::next()` call, as the generated code performs it.
    /// Returns (result, new token_start, new token_end, skips performed).
    pub fn next(
        &self,
        input: &[u8],
        token_end: usize,
        is_str: bool,
        is_prefix: bool,
        skips: &mut Vec<(usize, usize, usize)>,
        budget: &mut u64,
    ) -> (Option<Item>, usize, usize) {
        let mut start = token_end;
        let mut end = token_end;
        let mut offset = start;
        let mut state = self.root;
        let mut ctx: Option<usize> = None;
        loop {
            if *budget == 0 {
                return (None, start, end);
            }
            *budget -= 1;
            let st = &self.states[state];
            if let Some(l) = st.early {
                end = offset;
                ctx = Some(l);
            } else if let Some(l) = st.accept {
                end = offset.wrapping_sub(1);
                ctx = Some(l);
            }
            if offset < input.len() {
                if let Some(t) = self.edge(state, input[offset]) {
                    offset += 1;
                    state = t;
                    continue;
                }
            } else {
                if (!st.normal.is_empty() || st.eoi.is_some()) && is_prefix {
                    return (None, start, start);
                }
                if state == self.root && offset == start {
                    return (None, start, end);
                }
                if let Some(t) = st.eoi {
                    offset += 1;
                    state = t;
                    continue;
                }
            }
            // take action
            match ctx {
                None => {
                    let e = round_up_boundary(input, offset.max(start + 1), is_str);
                    return (Some(Item::Err(start, e)), start, e);
                }
                Some(l) => {
                    if self.leaves[l].skip {
                        skips.push((l, start, end));
                        start = end;
                        offset = start;
                        ctx = None;
                        state = self.root;
                        continue;
                    }
                    return (Some(Item::Tok(l, start, end)), start, end);
                }
            }
        }
    }

    pub fn run(&self, input: &[u8], is_str: bool, is_prefix: bool) -> Run {
        let mut r = Run { items: vec![], skips: vec![], end_pos: 0, end_start: 0, hung: false };
        let mut pos = 0;
        let mut budget = 64 * (input.len() as u64 + 4) * (input.len() as u64 + 4);
        loop {
            let (it, s, e) = self.next(input, pos, is_str, is_prefix, &mut r.skips, &mut budget);
            if budget == 0 {
                r.hung = true;
                r.end_pos = e;
                r.end_start = s;
                return r;
            }
            pos = e;
            match it {
                Some(i) => r.items.push(i),
                None => {
                    r.end_pos = e;
                    r.end_start = s;
                    return r;
                }
            }
            if r.items.len() > input.len() + 2 {
                r.hung = true;
                return r;
            }
        }
    }

    /// shape signature used to pick representatives for compilation
    pub fn signature(&self) -> String {
        let mut feats: Vec<String> = vec![];
        // the root is re-entered from another state (a token can be "in the middle" at the root)
        let root_incoming = self.states.iter().enumerate().any(|(i, st)| i != self.root && (st.normal.iter().any(|(_, t)| *t == self.root) || st.eoi == Some(self.root)));
        for (i, st) in self.states.iter().enumerate() {
            let nedges = st.normal.iter().filter(|(_, t)| *t != i).count();
            let selfloop = st.normal.iter().any(|(_, t)| *t == i);
            let mut lut = false;
            let mut hole = false;
            for (rs, _) in &st.normal {
                let (ops, h) = cmp_ops(rs);
                if ops > 2 {
                    lut = true;
                }
                hole |= h;
            }
            // an inline comparison with one open side (class anchored at 0x00 or ending at 0xff)
            let one_sided = !lut && st.normal.iter().any(|(rs, _)| rs.first().map_or(false, |r| r.0 == 0) != rs.last().map_or(false, |r| r.1 == 255));
            feats.push(format!(
                "{}{}{}{}{}{}{}{}{}",
                match nedges { 0 => "0", 1 => "1", 2 => "2", _ => "T" },
                if selfloop { "L" } else { "" },
                if lut { "U" } else { "" },
                if hole { "H" } else { "" },
                if st.early.is_some() && st.accept.is_some() { "B" } else if st.early.is_some() { "E" } else if st.accept.is_some() { "A" } else { "" },
                if st.eoi.is_some() { "$" } else { "" },
                if i == self.root { "R" } else { "" },
                if i == self.root && root_incoming { "I" } else { "" },
                if one_sided { "S" } else { "" },
            ));
        }
        feats.sort();
        feats.dedup();
        feats.join(",")
    }
}

/// number of comparison operations the if-chain generator would use for this class, and whether a
/// one-byte hole ("except") is involved (mirrors ByteClass::impl_with_cmp / count_ops)
pub fn cmp_ops(rs: &[(u8, u8)]) -> (usize, bool) {
    let mut groups: Vec<((u8, u8), usize)> = vec![];
    for &(lo, hi) in rs {
        if let Some(((_, e), ex)) = groups.last_mut() {
            if lo as usize == *e as usize + 2 {
                *e = hi;
                *ex += 1;
                continue;
            }
        }
        groups.push(((lo, hi), 0));
    }
    let mut ops = 0;
    let mut hole = false;
    for ((lo, hi), ex) in groups {
        ops += if lo == hi { 1 } else { (lo > 0) as usize + (hi < 255) as usize } + ex;
        hole |= ex > 0;
    }
    (ops, hole)
}
