//! Reference automaton: own Thompson NFA over bytes from regex-syntax HIR, and the subset
//! automaton with look-around resolved against (previous symbol class, next symbol).
//! No regex-automata code is involved.
use crate::hirs::look_supported;
use regex_syntax::hir::{Class, Hir, HirKind, Look};
use regex_syntax::utf8::Utf8Sequences;
use std::collections::{BTreeSet, HashMap, VecDeque};

#[derive(Debug, Clone)]
pub enum Inst {
    Ranges(Vec<(u8, u8)>, usize),
    Split(Vec<usize>),
    Look(Look, usize),
    Match(usize),
    Fail,
}

#[derive(Default)]
pub struct Nfa {
    pub insts: Vec<Inst>,
    pub starts: Vec<usize>,
}

impl Nfa {
    fn push(&mut self, i: Inst) -> usize {
        self.insts.push(i);
        self.insts.len() - 1
    }
    /// compile `hir` so that on success control continues at `next`; returns entry pc
    fn c(&mut self, hir: &Hir, next: usize) -> usize {
        match hir.kind() {
            HirKind::Empty => next,
            HirKind::Literal(l) => {
                let mut n = next;
                for &b in l.0.iter().rev() {
                    n = self.push(Inst::Ranges(vec![(b, b)], n));
                }
                n
            }
            HirKind::Class(Class::Bytes(c)) => {
                let rs: Vec<(u8, u8)> = c.ranges().iter().map(|r| (r.start(), r.end())).collect();
                if rs.is_empty() {
                    self.push(Inst::Fail)
                } else {
                    self.push(Inst::Ranges(rs, next))
                }
            }
            HirKind::Class(Class::Unicode(c)) => {
                let mut alts = vec![];
                for r in c.ranges() {
                    for seq in Utf8Sequences::new(r.start(), r.end()) {
                        let mut n = next;
                        for ur in seq.as_slice().iter().rev() {
                            n = self.push(Inst::Ranges(vec![(ur.start, ur.end)], n));
                        }
                        alts.push(n);
                    }
                }
                if alts.is_empty() {
                    self.push(Inst::Fail)
                } else {
                    self.push(Inst::Split(alts))
                }
            }
            HirKind::Look(l) => self.push(Inst::Look(*l, next)),
            HirKind::Capture(c) => self.c(&c.sub, next),
            HirKind::Concat(hs) => {
                let mut n = next;
                for h in hs.iter().rev() {
                    n = self.c(h, n);
                }
                n
            }
            HirKind::Alternation(hs) => {
                let alts: Vec<usize> = hs.iter().map(|h| self.c(h, next)).collect();
                self.push(Inst::Split(alts))
            }
            HirKind::Repetition(rep) => {
                let mut n = match rep.max {
                    None => {
                        let l = self.push(Inst::Split(vec![]));
                        let body = self.c(&rep.sub, l);
                        self.insts[l] = Inst::Split(vec![body, next]);
                        l
                    }
                    Some(max) => {
                        let mut n = next;
                        for _ in rep.min..max {
                            let body = self.c(&rep.sub, n);
                            n = self.push(Inst::Split(vec![body, next]));
                        }
                        n
                    }
                };
                for _ in 0..rep.min {
                    n = self.c(&rep.sub, n);
                }
                n
            }
        }
    }
}

#[derive(Clone, Copy, PartialEq, Eq, Hash, Debug, PartialOrd, Ord)]
pub enum Prev {
    Start,
    Word,
    LF,
    CR,
    Other,
    /// normalised away: no pending look-around cares
    Any,
}

pub fn is_word_byte(b: u8) -> bool {
    matches!(b, b'0'..=b'9' | b'A'..=b'Z' | b'a'..=b'z' | b'_')
}

fn prev_of(b: u8) -> Prev {
    match b {
        _ if is_word_byte(b) => Prev::Word,
        b'\n' => Prev::LF,
        b'\r' => Prev::CR,
        _ => Prev::Other,
    }
}

/// None = end of input
pub type Sym = Option<u8>;

fn look_ok(l: Look, prev: Prev, next: Sym, start_lookbehind: &mut bool) -> bool {
    let pw = prev == Prev::Word;
    let nw = matches!(next, Some(b) if is_word_byte(b));
    let at_start = prev == Prev::Start;
    let needs_prev = !matches!(l, Look::End | Look::EndLF | Look::WordEndHalfAscii);
    if at_start && needs_prev {
        *start_lookbehind = true;
    }
    match l {
        Look::Start => at_start,
        Look::End => next.is_none(),
        Look::StartLF => at_start || prev == Prev::LF,
        Look::EndLF => next.is_none() || next == Some(b'\n'),
        Look::StartCRLF => at_start || prev == Prev::LF || (prev == Prev::CR && next != Some(b'\n')),
        Look::EndCRLF => next.is_none() || next == Some(b'\r') || (next == Some(b'\n') && prev != Prev::CR),
        Look::WordAscii => pw != nw,
        Look::WordAsciiNegate => pw == nw,
        Look::WordStartAscii => !pw && nw,
        Look::WordEndAscii => pw && !nw,
        Look::WordStartHalfAscii => !pw,
        Look::WordEndHalfAscii => !nw,
        _ => unreachable!("unsupported look filtered at build"),
    }
}

#[derive(Clone, PartialEq, Eq, Hash, Debug)]
struct RKey {
    pcs: Vec<usize>,
    prev: Prev,
}

pub const EOI_TARGET: usize = usize::MAX;

pub struct RefAut {
    pub nfa: Nfa,
    pub npat: usize,
    states: Vec<RKey>,
    index: HashMap<RKey, usize>,
    /// trans[state][class] = (patterns matching exactly the text read so far given this look-ahead
    /// symbol (sorted), next state; EOI_TARGET in the last column)
    pub trans: Vec<Vec<(Vec<usize>, usize)>>,
    /// representative byte per class
    pub classes: Vec<u8>,
    pub class_of: [usize; 256],
    /// some symbol sequence from this state reaches a match
    pub viable: Vec<bool>,
    /// a look-behind assertion was evaluated at the token start
    pub start_lookbehind: bool,
    pub has_look: bool,
}

#[derive(Debug, Clone, PartialEq, Eq)]
pub enum BuildError {
    UnsupportedLook(String),
    TooLarge(usize),
}

impl RefAut {
    fn closure(&self, seeds: &[usize], out: &mut BTreeSet<usize>) {
        let mut stack: Vec<usize> = seeds.to_vec();
        let mut seen = BTreeSet::new();
        while let Some(pc) = stack.pop() {
            if !seen.insert(pc) {
                continue;
            }
            match &self.nfa.insts[pc] {
                Inst::Split(v) => stack.extend(v.iter().copied()),
                Inst::Fail => {}
                _ => {
                    out.insert(pc);
                }
            }
        }
    }
    fn intern(&mut self, pcs: BTreeSet<usize>, prev: Prev) -> usize {
        let has_look = pcs.iter().any(|&pc| matches!(self.nfa.insts[pc], Inst::Look(..)));
        let prev = if has_look { prev } else { Prev::Any };
        let key = RKey { pcs: pcs.into_iter().collect(), prev };
        if let Some(&i) = self.index.get(&key) {
            return i;
        }
        self.states.push(key.clone());
        self.index.insert(key, self.states.len() - 1);
        self.states.len() - 1
    }
    /// resolve pending looks given the next symbol; returns the full set of pcs
    fn resolve(&mut self, s: usize, sym: Sym) -> BTreeSet<usize> {
        let key = self.states[s].clone();
        let mut set: BTreeSet<usize> = key.pcs.iter().copied().collect();
        let mut done = BTreeSet::new();
        loop {
            let pending: Vec<usize> = set
                .iter()
                .copied()
                .filter(|pc| matches!(self.nfa.insts[*pc], Inst::Look(..)) && !done.contains(pc))
                .collect();
            if pending.is_empty() {
                break;
            }
            for pc in pending {
                done.insert(pc);
                if let Inst::Look(l, next) = self.nfa.insts[pc].clone() {
                    let mut sl = false;
                    let ok = look_ok(l, key.prev, sym, &mut sl);
                    if sl {
                        self.start_lookbehind = true;
                    }
                    if ok {
                        let mut add = BTreeSet::new();
                        self.closure(&[next], &mut add);
                        set.extend(add);
                    }
                }
            }
        }
        set
    }
    fn step(&mut self, s: usize, sym: Sym) -> (Vec<usize>, usize) {
        let set = self.resolve(s, sym);
        let mut matched: Vec<usize> = set
            .iter()
            .filter_map(|&pc| if let Inst::Match(p) = self.nfa.insts[pc] { Some(p) } else { None })
            .collect();
        matched.sort();
        matched.dedup();
        match sym {
            None => (matched, EOI_TARGET),
            Some(b) => {
                let mut seeds = vec![];
                for &pc in &set {
                    if let Inst::Ranges(rs, next) = &self.nfa.insts[pc] {
                        if rs.iter().any(|&(lo, hi)| lo <= b && b <= hi) {
                            seeds.push(*next);
                        }
                    }
                }
                let mut out = BTreeSet::new();
                self.closure(&seeds, &mut out);
                let n = self.intern(out, prev_of(b));
                (matched, n)
            }
        }
    }

    /// `extra_boundaries`: bytes at which a new symbol class must start (boundaries of the ranges
    /// of the automaton this one will be compared with).
    pub fn build(hirs: &[Hir], extra_boundaries: &[u8], max_states: usize) -> Result<RefAut, BuildError> {
        let mut looks = vec![];
        for h in hirs {
            crate::hirs::looks_in(h, &mut looks);
        }
        if let Some(l) = looks.iter().find(|l| !look_supported(**l)) {
            return Err(BuildError::UnsupportedLook(format!("{l:?}")));
        }
        // refuse to unroll astronomically large counted repetitions
        fn estimate(h: &Hir) -> usize {
            match h.kind() {
                HirKind::Empty | HirKind::Look(_) => 1,
                HirKind::Literal(l) => l.0.len(),
                HirKind::Class(Class::Bytes(_)) => 1,
                HirKind::Class(Class::Unicode(c)) => c.ranges().len().saturating_mul(4).max(1),
                HirKind::Capture(c) => estimate(&c.sub),
                HirKind::Concat(v) | HirKind::Alternation(v) => v.iter().map(estimate).fold(1usize, |a, b| a.saturating_add(b)),
                HirKind::Repetition(r) => {
                    let copies = (r.max.unwrap_or(r.min + 1).max(r.min) as usize).max(1);
                    copies.saturating_mul(estimate(&r.sub).saturating_add(1))
                }
            }
        }
        let est = hirs.iter().map(estimate).fold(0usize, |a, b| a.saturating_add(b));
        if est > 400_000 {
            return Err(BuildError::TooLarge(est));
        }
        let mut nfa = Nfa::default();
        for (i, h) in hirs.iter().enumerate() {
            let m = nfa.push(Inst::Match(i));
            let s = nfa.c(h, m);
            nfa.starts.push(s);
        }
        let mut bound = [false; 257];
        bound[0] = true;
        let mut mark = |lo: u8, hi: u8| {
            bound[lo as usize] = true;
            bound[hi as usize + 1] = true;
        };
        for i in &nfa.insts {
            if let Inst::Ranges(rs, _) = i {
                for &(lo, hi) in rs {
                    mark(lo, hi);
                }
            }
        }
        for (lo, hi) in [(b'0', b'9'), (b'A', b'Z'), (b'a', b'z'), (b'_', b'_'), (b'\n', b'\n'), (b'\r', b'\r')] {
            mark(lo, hi);
        }
        for &b in extra_boundaries {
            bound[b as usize] = true;
        }
        let mut classes = vec![];
        let mut class_of = [0usize; 256];
        for b in 0..256usize {
            if bound[b] {
                classes.push(b as u8);
            }
            class_of[b] = classes.len() - 1;
        }
        let mut ra = RefAut {
            nfa,
            npat: hirs.len(),
            states: vec![],
            index: HashMap::new(),
            trans: vec![],
            classes,
            class_of,
            viable: vec![],
            start_lookbehind: false,
            has_look: !looks.is_empty(),
        };
        let mut init = BTreeSet::new();
        let starts = ra.nfa.starts.clone();
        ra.closure(&starts, &mut init);
        ra.intern(init, Prev::Start);
        let mut i = 0;
        while i < ra.states.len() {
            if ra.states.len() > max_states {
                return Err(BuildError::TooLarge(ra.states.len()));
            }
            let mut row = Vec::with_capacity(ra.classes.len() + 1);
            for ci in 0..ra.classes.len() {
                let b = ra.classes[ci];
                row.push(ra.step(i, Some(b)));
            }
            row.push(ra.step(i, None));
            ra.trans.push(row);
            i += 1;
        }
        let n = ra.states.len();
        let mut viable = vec![false; n];
        loop {
            let mut changed = false;
            for s in 0..n {
                if viable[s] {
                    continue;
                }
                if ra.trans[s].iter().any(|(m, nx)| !m.is_empty() || (*nx != EOI_TARGET && viable[*nx])) {
                    viable[s] = true;
                    changed = true;
                }
            }
            if !changed {
                break;
            }
        }
        ra.viable = viable;
        Ok(ra)
    }

    pub fn nstates(&self) -> usize {
        self.states.len()
    }
    pub fn nclasses(&self) -> usize {
        self.classes.len()
    }
    pub fn eoi_col(&self) -> usize {
        self.classes.len()
    }
    pub fn col(&self, sym: Sym) -> usize {
        match sym {
            Some(b) => self.class_of[b as usize],
            None => self.classes.len(),
        }
    }

    /// patterns that can match the empty string at the token start (under some look-ahead)
    pub fn nullable(&self) -> Vec<usize> {
        let mut v: Vec<usize> = self.trans[0].iter().flat_map(|(m, _)| m.iter().copied()).collect();
        v.sort();
        v.dedup();
        v
    }

    /// Highest-priority pattern among `matched`, or the set of patterns tied at the top.
    pub fn winner(matched: &[usize], prios: &[usize]) -> Result<Option<usize>, Vec<usize>> {
        if matched.is_empty() {
            return Ok(None);
        }
        let top = matched.iter().map(|&p| prios[p]).max().unwrap();
        let tops: Vec<usize> = matched.iter().copied().filter(|&p| prios[p] == top).collect();
        if tops.len() > 1 {
            Err(tops)
        } else {
            Ok(Some(tops[0]))
        }
    }

    /// All reachable (state, column) whose matching patterns tie at the top priority, each with
    /// the shortest symbol path reaching it.
    pub fn conflicts(&self, prios: &[usize]) -> Vec<(Vec<usize>, Vec<u8>)> {
        // BFS for shortest access strings
        let n = self.nstates();
        let mut parent: Vec<Option<(usize, usize)>> = vec![None; n];
        let mut seen = vec![false; n];
        let mut q = VecDeque::new();
        seen[0] = true;
        q.push_back(0usize);
        let mut order = vec![];
        while let Some(s) = q.pop_front() {
            order.push(s);
            for ci in 0..self.nclasses() {
                let nx = self.trans[s][ci].1;
                if !seen[nx] {
                    seen[nx] = true;
                    parent[nx] = Some((s, ci));
                    q.push_back(nx);
                }
            }
        }
        let path = |mut s: usize| {
            let mut v = vec![];
            while let Some((p, ci)) = parent[s] {
                v.push(self.classes[ci]);
                s = p;
            }
            v.reverse();
            v
        };
        let mut out: Vec<(Vec<usize>, Vec<u8>)> = vec![];
        for &s in &order {
            for (m, _) in &self.trans[s] {
                if let Err(t) = Self::winner(m, prios) {
                    if !out.iter().any(|(x, _)| *x == t) {
                        out.push((t, path(s)));
                    }
                }
            }
        }
        out
    }

    /// For each pattern: the minimal number of characters (non-continuation bytes) of a string it
    /// matches, by 0/1-BFS; None if it matches nothing.
    pub fn shortest_match(&self, every_byte_counts: bool) -> Vec<Option<usize>> {
        let n = self.nstates();
        let mut dist = vec![usize::MAX; n];
        let mut dq = VecDeque::new();
        dist[0] = 0;
        dq.push_back(0usize);
        while let Some(s) = dq.pop_front() {
            for ci in 0..self.nclasses() {
                let nx = self.trans[s][ci].1;
                let b = self.classes[ci];
                let w = if every_byte_counts || b & 0xC0 != 0x80 { 1 } else { 0 };
                if dist[s] + w < dist[nx] {
                    dist[nx] = dist[s] + w;
                    if w == 0 {
                        dq.push_front(nx)
                    } else {
                        dq.push_back(nx)
                    }
                }
            }
        }
        let mut best = vec![None; self.npat];
        for s in 0..n {
            if dist[s] == usize::MAX {
                continue;
            }
            for (m, _) in &self.trans[s] {
                for &p in m {
                    best[p] = Some(best[p].map_or(dist[s], |b: usize| b.min(dist[s])));
                }
            }
        }
        best
    }

    /// Does pattern `p` match exactly `text` (whole string, anchored at the token start, followed
    /// by `after`)?
    pub fn matches(&self, text: &[u8], after: Sym) -> Vec<usize> {
        let mut s = 0usize;
        for &b in text {
            s = self.trans[s][self.class_of[b as usize]].1;
        }
        self.trans[s][self.col(after)].0.clone()
    }
}
