//! Reference lexer: the specification of C01/C02/C03 executed on the reference automaton.
use crate::graph::{Item, Run};
use crate::refaut::RefAut;

pub struct RefLexer<'a> {
    pub ra: &'a RefAut,
    pub prios: &'a [usize],
    pub skip: &'a [bool],
    pub is_str: bool,
}

#[derive(Debug, Clone, PartialEq, Eq)]
pub enum One {
    /// (leaf, end)
    Match(usize, usize),
    /// error span end, fatal offset
    Error(usize, usize),
    /// at end of input
    Done,
}

impl<'a> RefLexer<'a> {
    /// longest non-empty match from `p`, or the error span
    pub fn one(&self, input: &[u8], p: usize) -> One {
        if p >= input.len() {
            return One::Done;
        }
        let ra = self.ra;
        let mut s = 0usize;
        let mut last: Option<(usize, usize)> = None;
        let mut i = p;
        let fatal;
        loop {
            let sym = input.get(i).copied();
            let (m, nx) = &ra.trans[s][ra.col(sym)];
            if i > p {
                if let Ok(Some(w)) = RefAut::winner(m, self.prios) {
                    last = Some((w, i));
                }
            }
            if sym.is_none() || !ra.viable[*nx] {
                fatal = i;
                break;
            }
            s = *nx;
            i += 1;
        }
        match last {
            Some((w, e)) => One::Match(w, e),
            None => {
                let mut e = fatal.max(p + 1);
                if self.is_str {
                    while e < input.len() && (input[e] & 0xC0) == 0x80 {
                        e += 1;
                    }
                }
                One::Error(e, fatal)
            }
        }
    }

    pub fn run(&self, input: &[u8]) -> Run {
        let mut r = Run { items: vec![], skips: vec![], end_pos: 0, end_start: 0, hung: false };
        let mut p = 0;
        loop {
            match self.one(input, p) {
                One::Done => {
                    r.end_pos = p;
                    r.end_start = p;
                    return r;
                }
                One::Match(l, e) => {
                    if self.skip[l] {
                        r.skips.push((l, p, e));
                    } else {
                        r.items.push(Item::Tok(l, p, e));
                    }
                    p = e;
                }
                One::Error(e, _) => {
                    r.items.push(Item::Err(p, e));
                    p = e;
                }
            }
        }
    }
}
