//! Per-definition reference analysis and the Layer-1 verdicts.
use crate::graph::Graph;
use crate::hirs::{self, Reject};
use crate::product::{self, Options};
use crate::refaut::{BuildError, RefAut, EOI_TARGET};
use crate::spec::{Kind, Lit, Spec};
use crate::utf8;
use regex_syntax::hir::{Class, Hir, HirKind};
use std::collections::{HashSet, VecDeque};

/// What the implementation did with a definition.
#[derive(Debug, Clone, Default)]
pub struct Observed {
    /// generate() returned normally and its output contains no compile_error!
    pub accepted: bool,
    pub graph: Option<Graph>,
    /// the messages of the compile_error! invocations in the output
    pub errors: Vec<String>,
    pub panicked: Option<String>,
    /// set when the same definition written with an explicit default (`utf8 = true`) is treated
    /// differently from the one that leaves the item out
    pub explicit_default_differs: Option<String>,
}

#[derive(Debug, Clone, PartialEq, Eq)]
pub enum MustReject {
    Parse(String),
    UndefinedSubpattern(String),
    BadSubpattern(String),
    UnsupportedLook(String),
    Nullable(Vec<usize>),
    StartLookbehind,
    NonUtf8(Vec<usize>),
    NonUtf8Subpattern(Vec<String>),
    GreedyDot(Vec<usize>),
    Conflict(Vec<Vec<usize>>),
}

impl MustReject {
    pub fn tag(&self) -> &'static str {
        match self {
            MustReject::Parse(_) => "parse",
            MustReject::UndefinedSubpattern(_) => "undefined-subpattern",
            MustReject::BadSubpattern(_) => "bad-subpattern",
            MustReject::UnsupportedLook(_) => "unsupported-look",
            MustReject::Nullable(_) => "nullable",
            MustReject::StartLookbehind => "start-lookbehind",
            MustReject::NonUtf8(_) => "non-utf8",
            MustReject::NonUtf8Subpattern(_) => "non-utf8-subpattern",
            MustReject::GreedyDot(_) => "greedy-dot",
            MustReject::Conflict(_) => "conflict",
        }
    }
}

pub struct RefInfo {
    pub hirs: Vec<Hir>,
    pub ra: RefAut,
    pub nullable: Vec<usize>,
    pub start_lookbehind: bool,
    pub non_utf8: Vec<usize>,
    pub non_utf8_subs: Vec<String>,
    pub greedy_dot: Vec<usize>,
    /// expected priority per leaf; None = outside the exact domain of C09
    pub expected_prios: Vec<Option<usize>>,
    /// priorities used by the reference (expected, falling back to `fallback` where None)
    pub prios: Vec<usize>,
    pub conflicts: Vec<(Vec<usize>, Vec<u8>)>,
    /// C09 cross-check: patterns whose semantic shortest match (0/1-BFS on the reference automaton)
    /// equals the structural rule / differs from it (branches that can never match)
    pub semantic_agree: usize,
    pub semantic_differ: Vec<usize>,
}

fn hir_in_char_domain(h: &Hir, is_str: bool) -> bool {
    match h.kind() {
        HirKind::Literal(l) => {
            if is_str {
                std::str::from_utf8(&l.0).is_ok()
            } else {
                l.0.iter().all(|b| *b < 0x80)
            }
        }
        HirKind::Class(Class::Bytes(c)) => !is_str || c.ranges().iter().all(|r| r.end() < 0x80),
        HirKind::Class(Class::Unicode(_)) => is_str,
        HirKind::Repetition(r) => hir_in_char_domain(&r.sub, is_str),
        HirKind::Capture(c) => hir_in_char_domain(&c.sub, is_str),
        HirKind::Concat(v) | HirKind::Alternation(v) => v.iter().all(|x| hir_in_char_domain(x, is_str)),
        _ => true,
    }
}

/// The specificity rule of C09, transcribed from the property text: the minimum number of literal
/// characters and character classes a match must traverse (concatenation adds, alternation takes
/// the minimum, repetition multiplies by its minimum count, assertions count zero).
pub fn structural_min_units(h: &Hir) -> usize {
    match h.kind() {
        HirKind::Empty | HirKind::Look(_) => 0,
        HirKind::Literal(l) => match std::str::from_utf8(&l.0) {
            Ok(s) => s.chars().count(),
            Err(_) => l.0.len(),
        },
        HirKind::Class(_) => 1,
        HirKind::Repetition(r) => r.min as usize * structural_min_units(&r.sub),
        HirKind::Capture(c) => structural_min_units(&c.sub),
        HirKind::Concat(v) => v.iter().map(structural_min_units).sum(),
        HirKind::Alternation(v) => v.iter().map(structural_min_units).min().unwrap_or(0),
    }
}

/// patterns of `ra` that can match a text that is not valid UTF-8
pub fn non_utf8_patterns(ra: &RefAut) -> Vec<usize> {
    let mut bad: HashSet<usize> = HashSet::new();
    let mut seen: HashSet<(usize, u8)> = HashSet::new();
    let mut q = VecDeque::new();
    seen.insert((0usize, 0u8));
    q.push_back((0usize, 0u8));
    while let Some((s, u)) = q.pop_front() {
        for (ci, (m, nx)) in ra.trans[s].iter().enumerate() {
            if u != utf8::BOUNDARY {
                bad.extend(m.iter().copied());
            }
            if *nx == EOI_TARGET || !ra.viable[*nx] {
                continue;
            }
            let b = ra.classes[ci];
            let u2 = if u == utf8::DEAD { utf8::DEAD } else { utf8::step(u, b) };
            if seen.insert((*nx, u2)) {
                q.push_back((*nx, u2));
            }
        }
    }
    let mut v: Vec<usize> = bad.into_iter().collect();
    v.sort();
    v
}

pub fn analyse(spec: &Spec, extra_boundaries: &[u8], fallback_prios: Option<&[usize]>, max_states: usize) -> Result<RefInfo, MustReject> {
    let hirs = hirs::spec_hirs(spec).map_err(|e| match e {
        Reject::Parse(m) => MustReject::Parse(m),
        Reject::UndefinedSubpattern(n) => MustReject::UndefinedSubpattern(n),
        Reject::BadSubpattern(n) => MustReject::BadSubpattern(n),
    })?;
    let mut bounds = extra_boundaries.to_vec();
    bounds.extend(utf8::CLASS_STARTS);
    let ra = RefAut::build(&hirs, &bounds, max_states).map_err(|e| match e {
        BuildError::UnsupportedLook(l) => MustReject::UnsupportedLook(l),
        BuildError::TooLarge(n) => MustReject::Parse(format!("reference automaton too large ({n} states)")),
    })?;
    let nullable = ra.nullable();
    let non_utf8 = non_utf8_patterns(&ra);
    let mut non_utf8_subs = vec![];
    if let Ok(subs) = hirs::subpattern_bodies(spec) {
        for (name, body) in subs {
            if let Ok(h) = regex_syntax::ParserBuilder::new().utf8(false).build().parse(&body) {
                if let Ok(sra) = RefAut::build(&[h], &utf8::CLASS_STARTS, max_states) {
                    if !non_utf8_patterns(&sra).is_empty() {
                        non_utf8_subs.push(name);
                    }
                }
            }
        }
    }
    let greedy_dot: Vec<usize> = spec
        .pats
        .iter()
        .enumerate()
        .filter(|(i, p)| p.kind != Kind::Token && !p.allow_greedy && hirs::has_greedy_dot(&hirs[*i]))
        .map(|(i, _)| i)
        .collect();
    let by_chars = ra.shortest_match(false);
    let by_bytes = ra.shortest_match(true);
    let mut expected = vec![];
    let mut semantic_agree = 0usize;
    let mut semantic_differ: Vec<usize> = vec![];
    for (i, p) in spec.pats.iter().enumerate() {
        let e = if let Some(n) = p.priority {
            Some(n)
        } else if p.kind == Kind::Token {
            Some(2 * p.lit.bytes().len())
        } else {
            let is_str = matches!(p.lit, Lit::Str(_));
            if hir_in_char_domain(&hirs[i], is_str) {
                let st = structural_min_units(&hirs[i]);
                let m = if is_str { by_chars[i] } else { by_bytes[i] };
                match m {
                    Some(c) if c == st => semantic_agree += 1,
                    Some(_) => semantic_differ.push(i),
                    None => {}
                }
                Some(2 * st)
            } else {
                // byte patterns with literal bytes >= 0x80: a literal run that is valid UTF-8 counts
                // its characters, any other run counts its bytes (no semantic cross-check here)
                Some(2 * structural_min_units(&hirs[i]))
            }
        };
        expected.push(e);
    }
    let prios: Vec<usize> = expected
        .iter()
        .enumerate()
        .map(|(i, e)| e.unwrap_or_else(|| fallback_prios.and_then(|f| f.get(i).copied()).unwrap_or(0)))
        .collect();
    let conflicts = ra.conflicts(&prios);
    let start_lookbehind = ra.start_lookbehind;
    Ok(RefInfo { hirs, ra, nullable, start_lookbehind, non_utf8, non_utf8_subs, greedy_dot, expected_prios: expected, prios, conflicts, semantic_agree, semantic_differ })
}

impl RefInfo {
    /// reasons for which the definition must not be accepted (C03, C04, C08, C19)
    pub fn must_reject(&self, spec: &Spec) -> Vec<MustReject> {
        let mut v = vec![];
        if !self.nullable.is_empty() {
            v.push(MustReject::Nullable(self.nullable.clone()));
        }
        if self.start_lookbehind {
            v.push(MustReject::StartLookbehind);
        }
        if spec.utf8 && !self.non_utf8.is_empty() {
            v.push(MustReject::NonUtf8(self.non_utf8.clone()));
        }
        if spec.utf8 && !self.non_utf8_subs.is_empty() {
            v.push(MustReject::NonUtf8Subpattern(self.non_utf8_subs.clone()));
        }
        if !self.greedy_dot.is_empty() {
            v.push(MustReject::GreedyDot(self.greedy_dot.clone()));
        }
        if !self.conflicts.is_empty() && self.nullable.is_empty() && !self.start_lookbehind {
            v.push(MustReject::Conflict(self.conflicts.iter().map(|c| c.0.clone()).collect()));
        }
        v
    }
}

#[derive(Debug, Clone)]
pub struct L1Violation {
    pub tag: String,
    pub path: Vec<u8>,
    pub sym: Option<u8>,
    pub at_end: bool,
    pub detail: String,
}

#[derive(Debug, Clone, Default)]
pub struct L1Result {
    pub explored: bool,
    pub complete: bool,
    pub stats: product::Stats,
    pub violations: Vec<L1Violation>,
}

/// Product exploration of one accepted definition.
pub fn layer1(spec: &Spec, info: &RefInfo, g: &Graph, max_states: usize, valid_utf8_only: Option<bool>) -> L1Result {
    let mut out = L1Result { explored: true, complete: true, ..Default::default() };
    for s in g.structural() {
        let tag = s.split(':').next().unwrap().to_string();
        out.violations.push(L1Violation { tag, path: vec![], sym: None, at_end: false, detail: s });
    }
    if !out.violations.is_empty() {
        return out;
    }
    let opt = Options { is_str: valid_utf8_only.unwrap_or(spec.utf8), max_violations: 6, max_states };
    let (stats, viol, complete) = product::explore(g, &info.ra, &info.prios, &opt);
    out.stats = stats;
    out.complete = complete;
    for v in viol {
        out.violations.push(L1Violation { tag: v.tag.to_string(), path: v.path, sym: v.sym, at_end: v.sym.is_none(), detail: v.detail });
    }
    out
}
