//! vcore: definition specs, enumerators, reference semantics, explorers. No logos code in here.
pub mod analysis;
pub mod curated;
pub mod enumerate;
pub mod graph;
pub mod hirs;
pub mod product;
pub mod refaut;
pub mod reflex;
pub mod report;
pub mod spec;
pub mod utf8;

pub fn hex(b: &[u8]) -> String {
    b.iter().map(|x| format!("{x:02x}")).collect()
}
pub fn unhex(h: &str) -> Vec<u8> {
    (0..h.len() / 2).map(|i| u8::from_str_radix(&h[2 * i..2 * i + 2], 16).unwrap()).collect()
}
pub fn show(b: &[u8]) -> String {
    format!("{:?}", String::from_utf8_lossy(b))
}
