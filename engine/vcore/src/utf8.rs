//! UTF-8 validity DFA (RFC 3629: no overlongs, no surrogates, max U+10FFFF).
//! State 0 = between characters; DEAD = invalid.
pub const BOUNDARY: u8 = 0;
pub const DEAD: u8 = 255;

/// boundaries of the byte classes the DFA distinguishes
pub const CLASS_STARTS: [u8; 13] = [0x80, 0x90, 0xA0, 0xC0, 0xC2, 0xE0, 0xE1, 0xED, 0xEE, 0xF0, 0xF1, 0xF4, 0xF5];

pub fn step(state: u8, b: u8) -> u8 {
    match state {
        0 => match b {
            0x00..=0x7F => 0,
            0xC2..=0xDF => 1,
            0xE0 => 3,
            0xE1..=0xEC | 0xEE..=0xEF => 2,
            0xED => 4,
            0xF0 => 6,
            0xF1..=0xF3 => 5,
            0xF4 => 7,
            _ => DEAD,
        },
        1 => if (0x80..=0xBF).contains(&b) { 0 } else { DEAD },
        2 => if (0x80..=0xBF).contains(&b) { 1 } else { DEAD },
        3 => if (0xA0..=0xBF).contains(&b) { 1 } else { DEAD },
        4 => if (0x80..=0x9F).contains(&b) { 1 } else { DEAD },
        5 => if (0x80..=0xBF).contains(&b) { 2 } else { DEAD },
        6 => if (0x90..=0xBF).contains(&b) { 2 } else { DEAD },
        7 => if (0x80..=0x8F).contains(&b) { 2 } else { DEAD },
        _ => DEAD,
    }
}

/// minimal bytes completing the current character from `state`
pub fn completion(state: u8) -> &'static [u8] {
    match state {
        0 => &[],
        1 => &[0x80],
        2 => &[0x80, 0x80],
        3 => &[0xA0, 0x80],
        4 => &[0x80, 0x80],
        5 => &[0x80, 0x80, 0x80],
        6 => &[0x90, 0x80, 0x80],
        7 => &[0x80, 0x80, 0x80],
        _ => &[],
    }
}

pub fn run(bytes: &[u8]) -> u8 {
    let mut s = 0;
    for &b in bytes {
        s = step(s, b);
        if s == DEAD {
            break;
        }
    }
    s
}

/// Self-check against std: every byte string of length <= 3 and every scalar value's encoding
/// plus its truncations / perturbations.
pub fn self_check() -> Result<u64, String> {
    let mut n = 0u64;
    let mut check = |v: &[u8]| -> Result<(), String> {
        let ok = std::str::from_utf8(v).is_ok();
        let s = run(v);
        n += 1;
        if ok != (s == BOUNDARY) {
            return Err(format!("utf8 dfa disagrees with std on {v:x?}"));
        }
        // prefix-validity: std reports error_len None for a valid-but-incomplete tail
        let prefix_ok = match std::str::from_utf8(v) {
            Ok(_) => true,
            Err(e) => e.error_len().is_none(),
        };
        if prefix_ok != (s != DEAD) {
            return Err(format!("utf8 dfa prefix validity disagrees with std on {v:x?}"));
        }
        Ok(())
    };
    for a in 0..=255u8 {
        check(&[a])?;
        for b in 0..=255u8 {
            check(&[a, b])?;
        }
    }
    for lead in [0xE0u8, 0xE1, 0xEC, 0xED, 0xEE, 0xEF, 0xF0, 0xF1, 0xF3, 0xF4, 0xF5] {
        for b in 0x70..=0xC8u8 {
            for c in [0x7F, 0x80, 0x8F, 0x90, 0x9F, 0xA0, 0xBF, 0xC0] {
                check(&[lead, b, c])?;
                for d in [0x7F, 0x80, 0xBF, 0xC0] {
                    check(&[lead, b, c, d])?;
                }
            }
        }
    }
    Ok(n)
}
