//! Systematic enumeration of the definition family F(k) (DESIGN.md 2.4).
use crate::spec::{Kind, Lit, Pat, Spec};
use std::collections::BTreeSet;

#[derive(Clone, Debug, PartialEq, Eq, Hash, PartialOrd, Ord)]
pub enum Re {
    Atom(String),
    Cat(Box<Re>, Box<Re>),
    Alt(Box<Re>, Box<Re>),
    Post(Box<Re>, &'static str),
    Flag(&'static str, Box<Re>),
}

impl Re {
    pub fn ops(&self) -> usize {
        match self {
            Re::Atom(_) => 0,
            Re::Cat(a, b) | Re::Alt(a, b) => 1 + a.ops() + b.ops(),
            Re::Post(a, _) | Re::Flag(_, a) => 1 + a.ops(),
        }
    }
    fn is_unit(&self) -> bool {
        matches!(self, Re::Atom(_) | Re::Flag(..))
    }
    pub fn render(&self) -> String {
        match self {
            Re::Atom(s) => s.clone(),
            Re::Cat(a, b) => {
                let f = |x: &Re| if matches!(x, Re::Alt(..)) { format!("(?:{})", x.render()) } else { x.render() };
                format!("{}{}", f(a), f(b))
            }
            Re::Alt(a, b) => format!("{}|{}", a.render(), b.render()),
            Re::Post(a, op) => {
                if a.is_unit() {
                    format!("{}{}", a.render(), op)
                } else {
                    format!("(?:{}){}", a.render(), op)
                }
            }
            Re::Flag(f, a) => format!("(?{f}:{})", a.render()),
        }
    }
    /// the literal string if this term is a plain concatenation of literal atoms
    pub fn as_literal(&self) -> Option<String> {
        match self {
            Re::Atom(s) if is_literal_atom(s) => Some(s.clone()),
            Re::Cat(a, b) => Some(format!("{}{}", a.as_literal()?, b.as_literal()?)),
            _ => None,
        }
    }
}

fn is_literal_atom(s: &str) -> bool {
    let mut it = s.chars();
    match (it.next(), it.next()) {
        (Some(c), None) => !"\\.+*?()|[]{}^$#&-~".contains(c),
        _ => false,
    }
}

pub const ATOMS_CORE: &[&str] = &["a", "b", "[ab]", "[^a]", ".", "é"];
pub const ATOMS_EXT: &[&str] = &["c", "[a-c]", "€", "😊", "[α-ω]", "\\p{Greek}", "[a-ce-g]", "\\n", "[a&&b]"];
pub const ATOMS_LOOK: &[&str] = &["(?-u:\\b)", "(?-u:\\B)", "$", "(?m:$)", "(?m:^)", "^"];
pub const POSTFIX: &[&str] = &["*", "+", "?", "{2}", "{1,2}", "{2,}", "*?", "+?", "??"];
pub const FLAGS: &[&str] = &["i", "s"];

/// all terms with at most k operator applications over `atoms`
pub fn terms(atoms: &[&str], k: usize, postfix: &[&'static str], flags: &[&'static str]) -> Vec<Re> {
    let mut by_ops: Vec<Vec<Re>> = vec![atoms.iter().map(|a| Re::Atom(a.to_string())).collect()];
    for n in 1..=k {
        let mut cur: BTreeSet<Re> = BTreeSet::new();
        for x in &by_ops[n - 1] {
            for op in postfix {
                // a postfix on a postfix is legal regex (a+?), but `a**`-like doubles add nothing new
                cur.insert(Re::Post(Box::new(x.clone()), op));
            }
            for f in flags {
                cur.insert(Re::Flag(f, Box::new(x.clone())));
            }
        }
        for i in 0..n {
            let j = n - 1 - i;
            for x in &by_ops[i] {
                for y in &by_ops[j] {
                    cur.insert(Re::Cat(Box::new(x.clone()), Box::new(y.clone())));
                    if x <= y {
                        cur.insert(Re::Alt(Box::new(x.clone()), Box::new(y.clone())));
                    }
                }
            }
        }
        by_ops.push(cur.into_iter().collect());
    }
    let mut seen = BTreeSet::new();
    let mut out = vec![];
    for level in by_ops {
        for t in level {
            if seen.insert(t.render()) {
                out.push(t);
            }
        }
    }
    out
}

#[derive(Clone, Copy, Debug, PartialEq, Eq)]
pub enum PrioScheme {
    Default,
    /// explicit, first lower
    Asc,
    /// explicit, first higher
    Desc,
    /// explicit, all equal
    Equal,
}

pub fn apply_prios(pats: &mut [Pat], scheme: PrioScheme) {
    let n = pats.len();
    for (i, p) in pats.iter_mut().enumerate() {
        p.priority = match scheme {
            PrioScheme::Default => None,
            PrioScheme::Asc => Some(3 + 2 * i),
            PrioScheme::Desc => Some(3 + 2 * (n - i)),
            PrioScheme::Equal => Some(4),
        };
    }
}

pub struct Family {
    pub specs: Vec<Spec>,
}

/// A single-pattern definition in each applicable form.
pub fn single_forms(t: &Re, utf8: bool, with_token: bool) -> Vec<Spec> {
    let src = t.render();
    let mut v = vec![Spec::new(utf8, vec![Pat::regex(&src)])];
    v.push(Spec::new(utf8, vec![Pat::skip(&src), Pat::token("zz")]));
    if with_token {
        if let Some(l) = t.as_literal() {
            v.push(Spec::new(utf8, vec![Pat::token(&l)]));
        }
    }
    v
}

pub fn pair_forms(a: &Re, b: &Re, utf8: bool, schemes: &[PrioScheme], kinds: bool) -> Vec<Spec> {
    let (sa, sb) = (a.render(), b.render());
    let mut v = vec![];
    for &sch in schemes {
        let mut pats = vec![Pat::regex(&sa), Pat::regex(&sb)];
        apply_prios(&mut pats, sch);
        v.push(Spec::new(utf8, pats));
    }
    if kinds {
        if let Some(l) = a.as_literal() {
            v.push(Spec::new(utf8, vec![Pat::token(&l), Pat::regex(&sb)]));
        }
        if let Some(l) = b.as_literal() {
            v.push(Spec::new(utf8, vec![Pat::regex(&sa), Pat::token(&l)]));
        }
        v.push(Spec::new(utf8, vec![Pat::skip(&sa), Pat::regex(&sb)]));
        // two skips only (a tie between skip patterns must be reported like any other)
        v.push(Spec::new(utf8, vec![Pat::skip(&sa), Pat::skip(&sb), Pat::token("zz")]));
    }
    v
}

/// byte-mode-only patterns (byte-string literals)
pub fn byte_patterns() -> Vec<Pat> {
    let mut v = vec![];
    for p in [
        &b"\xff"[..],
        b"[\x80-\xff]",
        b"[\x80-\xff]+",
        b"a\xff",
        b".",
        b".+?a",
        b"[^a]",
        b"[^a]+",
        b"\xc3\xa9",
        b"\xe2\x82",
        b"[\xc0-\xdf][\x80-\xbf]",
        b"\x00+",
        b"(?s:.)",
        b"\xc3\xa9\xff",
        b"(\xf0\x9f){2}",
        b"\xe2\x82\xac",
        b"\x80+",
        b"a\x80",
        b"\x7f\x80\x81",
        b"(\x80|\xfe)b",
        b"(\x80|\xff)b",
        b"[\xc0-\xc1][\x80-\xbf]|[\xf5-\xff][\x80-\xbf]",
        b"(a|\xff)+",
        // the FULL byte range as a class away from the root (a state whose only edge accepts all 256
        // values), alone, followed, optional, repeated a fixed number of times
        b"a(?s:.)",
        b"a(?s:.)b",
        b"(?s:.)a",
        b"(?s:.){2}",
        b"a(?s:.)?",
        b"\x01[\x00-\xff]",
        b"(?s:.)[\x00-\xff]c",
        b"a(?s:.)|ab",
    ] {
        v.push(Pat::bregex(p));
    }
    for t in [&b"\xff"[..], b"\x00", b"a\x80", b"\xc3\xa9", b"\xe2\x82\xac"] {
        v.push(Pat::btoken(t));
    }
    for t in [&b"a\x80"[..], b"\x80", b"K\x7f", b"\xc3\x89t"] {
        v.push(Pat::btoken(t).icase());
    }
    v
}

#[derive(Clone, Copy, Debug, PartialEq, Eq)]
pub enum Tier {
    Quick,
    Thorough,
}

/// The enumerated family for Layer 1.
pub fn family(tier: Tier) -> Vec<Spec> {
    let mut specs = vec![];
    let all_schemes = [PrioScheme::Default, PrioScheme::Asc, PrioScheme::Desc, PrioScheme::Equal];
    match tier {
        Tier::Quick => {
            let mut atoms: Vec<&str> = ATOMS_CORE.to_vec();
            atoms.extend(["$", "(?m:$)", "(?-u:\\b)", "€", "[a&&b]"]);
            let f1 = terms(&atoms, 1, POSTFIX, FLAGS);
            for t in &f1 {
                specs.extend(single_forms(t, true, true));
                specs.extend(single_forms(t, false, false));
            }
            // all pairs of F(1) over the core atoms + end assertions, default and explicit priorities
            let light: Vec<&str> = vec!["a", "b", "[ab]", "[^a]", ".", "é", "$", "(?m:$)"];
            let l1 = terms(&light, 1, POSTFIX, &["i"]);
            for (i, a) in l1.iter().enumerate() {
                for b in &l1[i..] {
                    specs.extend(pair_forms(a, b, true, &[PrioScheme::Default, PrioScheme::Desc, PrioScheme::Asc], false));
                    if a.ops() == 0 || b.ops() == 0 {
                        // both as skips, default and equal explicit priorities
                        specs.push(Spec::new(true, vec![Pat::skip(&a.render()), Pat::skip(&b.render()), Pat::token("zz")]));
                        specs.push(Spec::new(true, vec![Pat::skip(&a.render()).prio(4), Pat::skip(&b.render()).prio(4), Pat::token("zz")]));
                    }
                }
            }
            let f0 = terms(&atoms, 0, &[], &[]);
            for a in &f0 {
                for b in &f1 {
                    specs.extend(pair_forms(a, b, true, &[PrioScheme::Asc], true));
                    specs.extend(pair_forms(a, b, false, &[PrioScheme::Equal], false));
                }
            }
        }
        Tier::Thorough => {
            let mut atoms: Vec<&str> = ATOMS_CORE.to_vec();
            atoms.extend(ATOMS_EXT);
            atoms.extend(ATOMS_LOOK);
            let f1 = terms(&atoms, 1, POSTFIX, FLAGS);
            let core_look: Vec<&str> = ATOMS_CORE.iter().copied().chain(["$", "(?m:$)", "(?-u:\\b)", "€", "[a-c]"]).collect();
            let f2 = terms(&core_look, 2, POSTFIX, FLAGS);
            for t in f1.iter().chain(f2.iter()) {
                specs.extend(single_forms(t, true, true));
                specs.extend(single_forms(t, false, false));
            }
            for (i, a) in f1.iter().enumerate() {
                for b in &f1[i..] {
                    specs.extend(pair_forms(a, b, true, &all_schemes, true));
                }
            }
            let small: Vec<&str> = vec!["a", "b", "[ab]", "[^a]", ".", "é", "$"];
            let s1 = terms(&small, 1, &["*", "+", "?", "{2}"], &["i"]);
            for (i, a) in s1.iter().enumerate() {
                for (j, b) in s1.iter().enumerate().skip(i) {
                    for c in s1.iter().skip(j) {
                        let mut pats = vec![Pat::regex(&a.render()), Pat::regex(&b.render()), Pat::regex(&c.render())];
                        specs.push(Spec::new(true, pats.clone()));
                        apply_prios(&mut pats, PrioScheme::Asc);
                        specs.push(Spec::new(false, pats));
                    }
                }
            }
        }
    }
    // overlapping triples / quadruples under EVERY order of explicit priorities (a pattern that
    // outranks its predecessor but not an earlier one, etc.) and under default priorities
    let pool: Vec<&str> = match tier {
        // (Unicode-heavy members such as `.` cost ~30 ms of DFA construction per definition; the
        // quick pool keeps one, the thorough pool has them all)
        Tier::Quick => vec!["a", "a+", "[ab]+", "a|b", "ab?", "[ab]", "aa?", "a[ab]*", ".", "[^b]+", "aa", "a$|a", "(?i:a)", "a[ab]", "[ab][ab]"],
        Tier::Thorough => vec!["a", "a+", "[ab]+", "a|b", "ab?", "[ab]", "aa?", "a[ab]*", ".", "[^b]+", "aa", "(?i:a)", "a{1,2}", "[a-c]", "a$|a", "é|a", "b*a"],
    };
    // every assignment of three priority levels to the three patterns: all orders AND all ties
    let mut perms3: Vec<[usize; 3]> = vec![];
    for a in 0..3 {
        for b in 0..3 {
            for c in 0..3 {
                perms3.push([a, b, c]);
            }
        }
    }
    for i in 0..pool.len() {
        for j in i + 1..pool.len() {
            for k in j + 1..pool.len() {
                let base = [pool[i], pool[j], pool[k]];
                specs.push(Spec::new(true, base.iter().map(|p| Pat::regex(p)).collect()));
                // default priorities with the literal members as #[token] and with two members as skips
                specs.push(Spec::new(true, base.iter().map(|p| if is_literal_atom(p) || *p == "aa" { Pat::token(p) } else { Pat::regex(p) }).collect()));
                specs.push(Spec::new(true, vec![Pat::skip(base[0]), Pat::skip(base[1]), Pat::regex(base[2])]));
                specs.push(Spec::new(true, vec![Pat::skip(base[1]), Pat::skip(base[2]), Pat::regex(base[0])]));
                for pr in &perms3 {
                    let pats: Vec<Pat> = base.iter().enumerate().map(|(x, p)| Pat::regex(p).prio(3 + 2 * pr[x])).collect();
                    specs.push(Spec::new(true, pats.clone()));
                    if pr[0] == 1 {
                        specs.push(Spec::new(false, pats));
                    }
                }
                // kinds: each position as a skip (skips are numbered first, so leaf order != written
                // order) under the six strict priority orders, and with ignore(case) on one member
                for pr in perms3.iter().filter(|pr| pr[0] != pr[1] && pr[1] != pr[2] && pr[0] != pr[2]) {
                    for sk in 0..3 {
                        let pats: Vec<Pat> = base
                            .iter()
                            .enumerate()
                            .map(|(x, p)| if x == sk { Pat::skip(p).prio(3 + 2 * pr[x]) } else { Pat::regex(p).prio(3 + 2 * pr[x]) })
                            .collect();
                        specs.push(Spec::new(true, pats));
                    }
                    if pr[0] == 2 {
                        let mut pats: Vec<Pat> = base.iter().enumerate().map(|(x, p)| Pat::regex(p).prio(3 + 2 * pr[x])).collect();
                        pats[1].icase = true;
                        specs.push(Spec::new(true, pats));
                    }
                }
                // literal token first / last with explicit priorities around it
                if base[0] == "a" || base[0] == "aa" {
                    for pr in &perms3 {
                        let mut pats: Vec<Pat> = base.iter().enumerate().map(|(x, p)| Pat::regex(p).prio(3 + 2 * pr[x])).collect();
                        pats[0] = Pat::token(base[0]).prio(3 + 2 * pr[0]);
                        specs.push(Spec::new(true, pats));
                    }
                }
            }
        }
    }
    let qpool = &pool[..if tier == Tier::Thorough { 10 } else { 6 }];
    // quadruples: all 24 strict orders plus every assignment of three levels (ties in every position)
    let mut perms4: Vec<[usize; 4]> = vec![];
    for a in 0..4 {
        for b in 0..4 {
            for c in 0..4 {
                for d in 0..4 {
                    let strict = a != b && a != c && a != d && b != c && b != d && c != d;
                    let three_levels = a < 3 && b < 3 && c < 3 && d < 3;
                    if strict || three_levels {
                        perms4.push([a, b, c, d]);
                    }
                }
            }
        }
    }
    for i in 0..qpool.len() {
        for j in i + 1..qpool.len() {
            for k in j + 1..qpool.len() {
                for l in k + 1..qpool.len() {
                    let base = [qpool[i], qpool[j], qpool[k], qpool[l]];
                    for pr in &perms4 {
                        let pats: Vec<Pat> = base.iter().enumerate().map(|(x, p)| Pat::regex(p).prio(3 + 2 * pr[x])).collect();
                        specs.push(Spec::new(true, pats));
                    }
                }
            }
        }
    }
    // five to eight simultaneously matching leaves (more than any fixed small buffer): every
    // rotation of strict priorities (each position wins once), a literal token in every position
    // under default priorities, and a tie at the top in every pair of positions
    let wide = ["a+", "[ab]+", "a[ab]*", "[^b]+", "a|b", "[ab]", "aa?", "ab?", "a{2}[ab]*", "(?i:a)+", "a{1,3}", "[ab]{1,2}", "a?a"];
    let nmax = if tier == Tier::Thorough { 8 } else { 6 };
    // nine to thirteen leaves matching at once, the interesting positions only: a strict winner / a
    // tie among the LAST ones declared (behind eight or more others), first against last
    for n in [9usize, 10, 12, 13] {
        let base = &wide[..n];
        for (r, r2) in [(n - 2, n - 1), (0, n - 1), (7, 8), (n - 1, n - 1), (8, 8), (0, 0)] {
            let pats: Vec<Pat> = base.iter().enumerate().map(|(x, p)| Pat::regex(p).prio(if x == r || x == r2 { 60 } else { 3 + x })).collect();
            specs.push(Spec::new(true, pats.clone()));
            if r == n - 2 {
                specs.push(Spec::new(false, pats));
            }
        }
        // a literal token declared last among default-priority regexes
        let mut pats: Vec<Pat> = base.iter().map(|p| Pat::regex(p)).collect();
        pats[n - 1] = Pat::token("aa");
        specs.push(Spec::new(true, pats.clone()));
        pats.push(Pat::token("aa"));
        specs.push(Spec::new(true, pats));
    }
    for n in 5..=nmax {
        for off in 0..=(wide.len() - n).min(if tier == Tier::Thorough { 3 } else { 1 }) {
            let base = &wide[off..off + n];
            for r in 0..n {
                for rev in [false, true] {
                    let pats: Vec<Pat> = base.iter().enumerate().map(|(x, p)| Pat::regex(p).prio(3 + 2 * if rev { (n - x + r) % n } else { (x + r) % n })).collect();
                    specs.push(Spec::new(true, pats.clone()));
                    if r == 0 {
                        specs.push(Spec::new(false, pats));
                    }
                }
                // a literal token at position r among n - 1 regexes, default priorities
                for lit in ["aaa", "ab", "a"] {
                    let mut pats: Vec<Pat> = base.iter().map(|p| Pat::regex(p)).collect();
                    pats[r] = Pat::token(lit);
                    specs.push(Spec::new(true, pats.clone()));
                    // and the same with every regex pushed below the token explicitly
                    for (x, p) in pats.iter_mut().enumerate() {
                        if x != r {
                            p.priority = Some(1);
                        }
                    }
                    specs.push(Spec::new(true, pats));
                }
                for r2 in r + 1..n {
                    let pats: Vec<Pat> = base.iter().enumerate().map(|(x, p)| Pat::regex(p).prio(if x == r || x == r2 { 50 } else { 3 + x })).collect();
                    specs.push(Spec::new(true, pats));
                }
            }
        }
    }
    // the full cross product of definition-level options on a few texts: kind x literal type x
    // ignore(case) x priority x callback x lexer mode x competitor (options interact: an option
    // that is handled on one path is easily forgotten on its sibling)
    for text in ["ab", "k", "a.b", "é"] {
        for kind in [Kind::Token, Kind::Regex, Kind::Skip] {
            for bytes_lit in [false, true] {
                for icase in [false, true] {
                    for prio in [None, Some(3usize), Some(50)] {
                        for cb in [false, true] {
                            for utf8 in [true, false] {
                                for comp in 0..3 {
                                    let lit = if bytes_lit { Lit::Bytes(text.as_bytes().to_vec()) } else { Lit::Str(text.to_string()) };
                                    let mut p = Pat::new(kind, lit);
                                    p.icase = icase;
                                    p.priority = prio;
                                    if cb {
                                        p.callback = Some("|_| ()".to_string());
                                    }
                                    let mut pats = vec![p];
                                    match comp {
                                        0 => {
                                            if kind == Kind::Skip {
                                                pats.push(Pat::token("zz"));
                                            }
                                        }
                                        1 => pats.push(Pat::regex("[a-zA-Zé.]+")),
                                        _ => pats.insert(0, Pat::regex("[a-zA-Zé.]+").prio(3)),
                                    }
                                    specs.push(Spec::new(utf8, pats));
                                }
                            }
                        }
                    }
                }
            }
        }
    }
    // the same with DEFAULT priorities only: a chain a+, aa+, aaa+, ... has pairwise different
    // default priorities and every member matches the token a^n, which outranks them all
    for n in 5..=nmax {
        let chain: Vec<String> = (1..n).map(|i| format!("{}+", "a".repeat(i))).collect();
        for r in 0..n {
            for rev in [false, true] {
                let mut pats: Vec<Pat> = chain.iter().map(|p| Pat::regex(p)).collect();
                if rev {
                    pats.reverse();
                }
                pats.insert(r, Pat::token(&"a".repeat(n)));
                specs.push(Spec::new(true, pats.clone()));
                if r == n - 1 {
                    specs.push(Spec::new(false, pats));
                }
            }
        }
    }
    // patterns that can match invalid UTF-8 must be rejected in str mode in EVERY form
    for p in byte_patterns() {
        specs.push(Spec::new(true, vec![p.clone()]));
        if p.kind == crate::spec::Kind::Regex {
            let mut sk = p.clone();
            sk.kind = crate::spec::Kind::Skip;
            specs.push(Spec::new(true, vec![sk.clone(), Pat::token("zz")]));
            specs.push(Spec::new(false, vec![sk, Pat::token("zz")]));
        }
    }
    for src in ["(?-u:[\\x80-\\xff])", "(?-u:\\xe2\\x82)", "a(?-u:.)", "(?-u:\\xc3)\\xa9", "(?s-u:.)+?b", "(?-u:[^a])"] {
        specs.push(Spec::new(true, vec![Pat::regex(src)]));
        specs.push(Spec::new(true, vec![Pat::skip(src), Pat::token("zz")]));
        specs.push(Spec::new(false, vec![Pat::regex(src)]));
        specs.push(Spec::new(false, vec![Pat::skip(src), Pat::token("zz")]));
    }
    // byte-mode family
    let bp = byte_patterns();
    for (i, a) in bp.iter().enumerate() {
        specs.push(Spec::new(false, vec![a.clone()]));
        for b in &bp[i + 1..] {
            specs.push(Spec::new(false, vec![a.clone(), b.clone()]));
            let mut pats = vec![a.clone(), b.clone()];
            apply_prios(&mut pats, PrioScheme::Desc);
            specs.push(Spec::new(false, pats));
        }
        specs.push(Spec::new(false, vec![a.clone(), Pat::regex("é+")]));
        specs.push(Spec::new(false, vec![a.clone(), Pat::regex("[^a]")]));
    }
    // look-around "sandwiches": head  assertion  tail, where the head may be a loop whose class
    // straddles the assertion (word and non-word bytes, text and line feeds) and the tail may make
    // the assertion unsatisfiable (a loop that can never be left: states from which no match is
    // reachable) or satisfiable only at the end of input / one byte later
    let heads = ["a", "a+", "[a,]+", "[a\\n]+", "(ab)*a", "[^a]+", "[ab]*,", "a?,+"];
    let looks = ["(?-u:\\b)", "(?-u:\\B)", "$", "(?m:$)", "(?-u:\\b{end})", "(?-u:\\b{start-half})"];
    let tails = ["", "a", ",", "a+", "[0-9]+", "\\n", "[a,]*!"];
    let (hn, tn) = if tier == Tier::Thorough { (heads.len(), tails.len()) } else { (heads.len(), 5) };
    for h in &heads[..hn] {
        for l in looks.iter().take(if tier == Tier::Thorough { 6 } else { 4 }) {
            for t in &tails[..tn] {
                let p = format!("{h}{l}{t}");
                specs.push(Spec::new(true, vec![Pat::regex(&p)]));
                specs.push(Spec::new(false, vec![Pat::regex(&p), Pat::regex("[0-9]+")]));
                specs.push(Spec::new(true, vec![Pat::regex(&p).prio(9), Pat::regex("[a,]").prio(1), Pat::token("\n")]));
                specs.push(Spec::new(true, vec![Pat::skip(&p), Pat::regex("[a-z0-9]+").prio(1)]));
            }
        }
    }
    // a pattern that never wins anywhere (completely shadowed by a later, higher-priority pattern
    // with the same language), declared FIRST, so that every later leaf index is shifted; in front
    // of shapes with early, late and early-and-late accepting states
    for base in [
        vec![Pat::regex("[a-z]+(?-u:\\b)").prio(5), Pat::regex("[a-z]+!").prio(6)],
        vec![Pat::regex("let(?-u:\\b)").prio(9), Pat::token("let "), Pat::regex("[a-z]+").prio(1)],
        vec![Pat::regex("[ab]+").prio(4), Pat::token("ab"), Pat::skip(" +")],
        vec![Pat::regex("a(?m:$)").prio(7), Pat::regex("a\\n?b?").prio(3)],
        vec![Pat::regex("(a|ab)(?-u:\\b)").prio(5), Pat::regex("[ab]+c").prio(6), Pat::skip(",")],
    ] {
        for k in 0..base.len() {
            if base[k].kind == Kind::Skip {
                continue;
            }
            // the shadow: same source, lowest priority, placed first / in the middle
            let mut shadow = base[k].clone();
            shadow.priority = Some(1);
            let mut winner = base.clone();
            if winner[k].priority.is_none() {
                winner[k].priority = Some(40);
            }
            for pos in [0, 1] {
                let mut pats = winner.clone();
                pats.insert(pos.min(pats.len()), shadow.clone());
                specs.push(Spec::new(true, pats.clone()));
                specs.push(Spec::new(false, pats));
            }
        }
    }
    // classes a generator might recognise BY NAME (letters, hex digits, identifier characters, white
    // space, printable ASCII ...) as loops and as single edges, in both modes; and loops over ranges
    // of 3- and 4-byte characters whose last continuation byte is restricted
    {
        let named = [
            "[A-Za-z]", "[a-zA-Z]", "[0-9A-Fa-f]", "[A-Za-z0-9_]", "[a-z]", "[A-Z]", "[0-9]", "(?-u:\\s)", "(?-u:\\w)", "(?-u:\\d)", "[[:alpha:]]", "[[:alnum:]]", "[[:space:]]", "[[:punct:]]", "[[:xdigit:]]",
            "[ \\t\\r\\n]", "[!-~]", "[ -~]", "[\\x00-\\x7f]", "[A-Za-z_$]", "[a-z0-9]", "[A-Fa-f]", "[^\\x00-\\x7f]", "[a-zA-Z\u{80}-\u{10ffff}]",
            "[一-丯]", "[😀-😏]", "[a-z一-丯]", "[\u{800}-\u{83f}]", "[\u{10000}-\u{1003f}]", "[\u{fff0}-\u{1000f}]", "[\u{7f0}-\u{80f}]",
        ];
        for c in named {
            for shape in [format!("{c}+"), format!("#{c}*;"), format!("<{c}>"), format!("{c}{{2,}}x")] {
                for utf8 in [true, false] {
                    specs.push(Spec::new(utf8, vec![Pat::regex(&shape)]));
                    specs.push(Spec::new(utf8, vec![Pat::regex(&shape).prio(9), Pat::regex("(?s:.)").prio(1)]));
                }
                specs.push(Spec::new(true, vec![Pat::skip(&shape), Pat::token("zz")]));
            }
        }
    }
    // a look-behind assertion behind a prefix that may be empty (the assertion then applies at the
    // token start after all), and behind one that may not
    for h in ["a*", "(ab)?", "[ \\t]*", "-?", "a+", "(?:a|)"] {
        for l in ["^", "(?m:^)", "(?-u:\\b)", "(?-u:\\b{start})", "(?-u:\\b{start-half})", "(?-u:\\B)", "$"] {
            for t in ["b", "[0-9]+", "#[a-z]*", ""] {
                let p = format!("{h}{l}{t}");
                specs.push(Spec::new(true, vec![Pat::regex(&p)]));
                specs.push(Spec::new(false, vec![Pat::regex(&p), Pat::regex("[a-z]+").prio(1)]));
                specs.push(Spec::new(true, vec![Pat::skip(&p), Pat::token("zz")]));
            }
        }
    }
    // allow_greedy = true: everything that is rejected only for an unbounded greedy dot is a legal
    // definition with the flag (its priorities and its matching are checked like any other); greedy
    // branches inside alternations, in both orders, next to a literal token of the same text
    {
        let extra: Vec<Spec> = specs
            .iter()
            .filter(|s| s.pats.iter().any(|p| p.kind != Kind::Token && { let t = crate::hirs::lit_pattern_text(&p.lit); [".*", ".+", ".{2,}", "[^a]*", "[^a]+", "[^a]{2,}", "[^b]+"].iter().any(|g| t.contains(g)) }))
            .map(|s| {
                let mut s2 = s.clone();
                for p in &mut s2.pats {
                    if p.kind != Kind::Token {
                        p.allow_greedy = true;
                    }
                }
                s2
            })
            .collect();
        specs.extend(extra);
        for g in [".+", "a.*", "[^a]+", ".{2,}", "#!/.*"] {
            for o in ["b", "bc", "[ab]", "é", "[a-z]+"] {
                for pat in [format!("{g}|{o}"), format!("{o}|{g}"), format!("x(?:{g}|{o})"), format!("(?:{o}|{g})y")] {
                    let mut p = Pat::regex(&pat);
                    p.allow_greedy = true;
                    specs.push(Spec::new(true, vec![p.clone()]));
                    specs.push(Spec::new(true, vec![p.clone(), Pat::token("bc")]));
                    specs.push(Spec::new(false, vec![p.clone(), Pat::token("b").prio(3)]));
                    let mut sk = p.clone();
                    sk.kind = Kind::Skip;
                    specs.push(Spec::new(true, vec![sk, Pat::token("bc")]));
                }
            }
        }
    }
    // SPELLINGS of the flag group that switches Unicode mode off inside a str literal (the meaning
    // is what counts: such a pattern may match invalid UTF-8 and then needs utf8 = false)
    {
        let bodies = [".", "\\xFF", "[^a]", "[\\x80-\\xff]", "a"];
        let spell = ["(?-u:B)", "(?-su:B)", "(?-us:B)", "(?s-u:B)", "(?i-su:B)", "(?-iu:B)", "(?-u)B", "(?-su)B", "(?x-u: B )", "(?U-u:B)", "(?-u:(?u:a)|B)", "(?u:(?-u:B))", "(?-u:(?-u:B))", "(?m-u:B)", "(?-uR:B)", "(?u-u:B)", "(?-u:(?i:B))", "(?:(?-u)B)"];
        let ctx = ["X", "aX", "X+b", "(?:X|c)"];
        for (i, b) in bodies.iter().enumerate() {
            for (j, sp) in spell.iter().enumerate() {
                for (k, c) in ctx.iter().enumerate() {
                    if tier != Tier::Thorough && (i + j + k) % 2 == 1 {
                        continue;
                    }
                    let p = c.replace('X', &sp.replace('B', b));
                    for utf8 in [true, false] {
                        specs.push(Spec::new(utf8, vec![Pat::regex(&p)]));
                        specs.push(Spec::new(utf8, vec![Pat::skip(&p), Pat::token("zz")]));
                    }
                }
            }
        }
    }
    // byte classes with arithmetic structure (anything a code generator could test with a mask, an
    // OR, a subtraction instead of comparisons): every pair of bytes that differ in exactly one bit,
    // every power-of-two aligned range, each also moved / stretched by one at either end - as the
    // only edge of a state (comparison chain), next to two other edges (jump table) and in a loop
    {
        fn bx(b: u8) -> String {
            format!("\\x{b:02x}")
        }
        let mut classes: Vec<String> = vec![];
        let step = if tier == Tier::Thorough { 1 } else { 3 };
        for lo in (0..=255u8).step_by(step) {
            for bit in 0..8 {
                let hi = lo | (1 << bit);
                if hi != lo {
                    classes.push(format!("[{}{}]", bx(lo), bx(hi)));
                }
            }
        }
        // the pairs 32 apart (ASCII case pairs and their look-alikes) always, at every position
        for lo in 0..=223u8 {
            classes.push(format!("[{}{}]", bx(lo), bx(lo + 32)));
        }
        for k in 1..8u32 {
            let w = 1u32 << k;
            for lo in (0..256u32).step_by(w as usize) {
                let hi = lo + w - 1;
                classes.push(format!("[{}-{}]", bx(lo as u8), bx(hi as u8)));
                if tier == Tier::Thorough || k >= 3 {
                    if lo > 0 {
                        classes.push(format!("[{}-{}]", bx(lo as u8 - 1), bx(hi as u8)));
                    }
                    if hi < 255 {
                        classes.push(format!("[{}-{}]", bx(lo as u8), bx(hi as u8 + 1)));
                    }
                    classes.push(format!("[{}-{}]", bx(lo as u8 + 1), bx(hi as u8)));
                    classes.push(format!("[{}-{}]", bx(lo as u8), bx(hi as u8 - 1)));
                }
            }
        }
        for (i, c) in classes.iter().enumerate() {
            let shape = match i % 3 {
                0 => format!("\\x01{c}\\x02"),
                1 => format!("\\x01(?:{c}\\x02|\\x03\\x04|\\x05\\x06)"),
                _ => format!("\\x01{c}+\\x02"),
            };
            specs.push(Spec::new(false, vec![Pat::bregex(shape.as_bytes())]));
            if tier == Tier::Thorough {
                specs.push(Spec::new(false, vec![Pat::bregex(format!("\\x01{c}\\x02").as_bytes()), Pat::bregex(b"[\\x00-\\xff]").prio(1)]));
            }
        }
    }
    // SEVERAL SKIPS with different default priorities next to a competitor whose explicit priority
    // sweeps through them (each skip is a leaf of its own with its own priority; on a tie in length
    // the competitor wins or loses against each of them separately), both declaration orders
    {
        let skips = ["a+", "[ab]", "ab", "a|bc", "[a-c]{2}", "ba*", "/[a-z]*", "/+x?"];
        let comps = ["a", "ab", "[ab]+", "a+b?", "/+", "/a"];
        for (i, s1) in skips.iter().enumerate() {
            for (j, s2) in skips.iter().enumerate() {
                if i == j {
                    continue;
                }
                for (k, c) in comps.iter().enumerate() {
                    for p in 1..=6usize {
                        if tier != Tier::Thorough && (i + j + k + p) % 3 != 0 {
                            continue;
                        }
                        specs.push(Spec::new(true, vec![Pat::skip(s1), Pat::skip(s2), Pat::regex(c).prio(p)]));
                        specs.push(Spec::new(true, vec![Pat::regex(c).prio(p), Pat::skip(s1), Pat::skip(s2), Pat::token("zz")]));
                    }
                }
                // three skips and a default-priority token
                specs.push(Spec::new(true, vec![Pat::skip(s1), Pat::skip(s2), Pat::skip("[a-z]"), Pat::token("ab")]));
            }
        }
    }
    // dedupe
    let mut seen = std::collections::HashSet::new();
    specs.retain(|s| seen.insert(s.clone()));
    specs
}

pub fn literal_pat(kind: Kind, lit: Lit, icase: bool) -> Pat {
    let mut p = Pat::new(kind, lit);
    p.icase = icase;
    p
}
