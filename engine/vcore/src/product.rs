//! Layer 1: explicit-state exploration of the synchronous product
//! (captured logos graph) x (reference subset automaton) [x UTF-8 validity DFA].
//! Decides, for ALL inputs of every length, the tags OUTCOME, EARLY-STOP, ERRSPAN, OVERREAD,
//! PARTIAL-UNSOUND, PARTIAL-LATE on one definition.
use crate::graph::Graph;
use crate::refaut::{RefAut, Sym, EOI_TARGET};
use crate::utf8;
use std::collections::{HashMap, VecDeque};

#[derive(Clone, Copy, PartialEq, Eq, Hash, Debug)]
pub enum Lag {
    L0,
    L1,
    Old,
}
pub type Ctx = Option<(usize, Lag)>;

fn age(c: Ctx) -> Ctx {
    c.map(|(l, g)| (l, match g { Lag::L0 => Lag::L1, _ => Lag::Old }))
}

const DEAD: usize = usize::MAX;

#[derive(Clone, PartialEq, Eq, Hash, Debug)]
struct PState {
    g: usize,
    r: usize,
    cg: Ctx,
    cr: Ctx,
    old_same: bool,
    over: u8,
    u8s: u8,
    /// no byte consumed yet (token start)
    zero: bool,
}

#[derive(Debug, Clone)]
pub struct Violation {
    pub tag: &'static str,
    /// the input prefix (bytes from the token start) leading to the violating transition
    pub path: Vec<u8>,
    /// the symbol on which it happens (None = end of input / buffer end)
    pub sym: Sym,
    pub detail: String,
}

#[derive(Debug, Clone, Default)]
pub struct Stats {
    pub states: usize,
    pub transitions: usize,
    pub late_accept_overreads: usize,
    pub partial_points: usize,
    pub partial_needmore_determined_look: usize,
}

pub struct Options {
    pub is_str: bool,
    pub max_violations: usize,
    pub max_states: usize,
}

fn both_old_same(prev_g: Ctx, prev_r: Ctx, aged_g: Ctx, aged_r: Ctx, prev_same: bool) -> bool {
    if let (Some((l1, Lag::Old)), Some((l2, Lag::Old))) = (aged_g, aged_r) {
        let wg = prev_g.unwrap().1;
        let wr = prev_r.unwrap().1;
        if wg == Lag::Old && wr == Lag::Old {
            prev_same
        } else {
            l1 == l2 && wg == wr
        }
    } else {
        false
    }
}

fn ctx_eq(cg: Ctx, cr: Ctx, old_same: bool) -> bool {
    match (cg, cr) {
        (None, None) => true,
        (Some((l1, g1)), Some((l2, g2))) => l1 == l2 && g1 == g2 && (g1 != Lag::Old || old_same),
        _ => false,
    }
}

pub fn explore(g: &Graph, ra: &RefAut, prios: &[usize], opt: &Options) -> (Stats, Vec<Violation>, bool) {
    let setup = |s: usize, cg: Ctx| -> Ctx {
        let st = &g.states[s];
        if let Some(l) = st.early {
            Some((l, Lag::L0))
        } else if let Some(l) = st.accept {
            Some((l, Lag::L1))
        } else {
            cg
        }
    };
    let mut stats = Stats::default();
    let mut viol: Vec<Violation> = vec![];
    let mut complete = true;
    let mut seen: HashMap<PState, usize> = HashMap::new();
    let mut order: Vec<(PState, usize, Sym)> = vec![];
    let mut q = VecDeque::new();
    let init = PState { g: g.root, r: 0, cg: setup(g.root, None), cr: None, old_same: false, over: 0, u8s: 0, zero: true };
    seen.insert(init.clone(), 0);
    order.push((init, usize::MAX, None));
    q.push_back(0usize);

    let path_of = |order: &Vec<(PState, usize, Sym)>, mut i: usize| -> Vec<u8> {
        let mut v = vec![];
        while i != usize::MAX {
            let (_, p, s) = &order[i];
            if *p != usize::MAX {
                if let Some(b) = s {
                    v.push(*b);
                }
            }
            i = *p;
        }
        v.reverse();
        v
    };
    macro_rules! complain {
        ($tag:expr, $i:expr, $sym:expr, $($arg:tt)*) => {
            if viol.len() < opt.max_violations {
                viol.push(Violation { tag: $tag, path: path_of(&order, $i), sym: $sym, detail: format!($($arg)*) });
            }
        };
    }
    let ncl = ra.nclasses();
    let valid_next = |u8s: u8, sym: Sym| -> bool {
        if !opt.is_str {
            return true;
        }
        match sym {
            None => u8s == utf8::BOUNDARY,
            Some(b) => utf8::step(u8s, b) != utf8::DEAD,
        }
    };

    while let Some(i) = q.pop_front() {
        let ps = order[i].0.clone();
        let n_is_zero = ps.zero;
        // ---------------- partial mode: the buffer ends here
        if !opt.is_str || ps.u8s == utf8::BOUNDARY {
            stats.partial_points += 1;
            let gst = &g.states[ps.g];
            // the generated code's return-None condition (fork.rs, fork_eoi): byte edges or an
            // end-of-input edge are still possible; bound to the emitted code by Layer 2
            let needmore = !gst.normal.is_empty() || gst.eoi.is_some();
            let determined = if ps.r == DEAD {
                true
            } else {
                let row = &ra.trans[ps.r];
                let mut bv = false;
                let mut first: Option<Option<usize>> = None;
                let mut same = true;
                for ci in 0..=ncl {
                    let sym: Sym = if ci < ncl { Some(ra.classes[ci]) } else { None };
                    if !valid_next(ps.u8s, sym) {
                        continue;
                    }
                    let (m, nx) = &row[ci];
                    if *nx != EOI_TARGET && ra.viable[*nx] {
                        bv = true;
                    }
                    let w = if n_is_zero { None } else { RefAut::winner(m, prios).ok().flatten() };
                    match first {
                        None => first = Some(w),
                        Some(f) => same &= f == w,
                    }
                }
                !bv && same
            };
            if !needmore && !determined && !(ps.g == g.root && n_is_zero) {
                complain!("PARTIAL-UNSOUND", i, None, "the partial lexer commits at this buffer end although a continuation changes the outcome (state {} has no byte edges, eoi edge: {:?})", ps.g, gst.eoi);
            }
            if needmore && determined {
                if !ra.has_look {
                    complain!("PARTIAL-LATE", i, None, "the partial lexer asks for more input although the item is determined (no look-around in the definition)");
                } else {
                    stats.partial_needmore_determined_look += 1;
                    let mut late2 = None;
                    for (rs, t) in &gst.normal {
                        if !g.states[*t].normal.is_empty() {
                            // only relevant if some valid next byte takes this edge
                            if rs.iter().any(|&(lo, hi)| (lo..=hi).any(|b| valid_next(ps.u8s, Some(b)))) {
                                late2 = Some(*t);
                            }
                        }
                    }
                    if let Some(t) = late2 {
                        complain!("PARTIAL-LATE", i, None, "item determined here but still not committed one byte later (successor state {t} has byte edges)");
                    }
                }
            }
        }
        // ---------------- transitions
        for ci in 0..=ncl {
            let sym: Sym = if ci < ncl { Some(ra.classes[ci]) } else { None };
            if !valid_next(ps.u8s, sym) {
                continue;
            }
            stats.transitions += 1;
            // reference side
            let (cr, r2, rdied_now);
            if ps.r == DEAD {
                cr = ps.cr;
                r2 = DEAD;
                rdied_now = false;
            } else {
                let (m, nx) = &ra.trans[ps.r][ci];
                let mut c = ps.cr;
                if !n_is_zero {
                    if let Ok(Some(l)) = RefAut::winner(m, prios) {
                        c = Some((l, Lag::L0));
                    }
                }
                cr = c;
                if *nx == EOI_TARGET || !ra.viable[*nx] {
                    r2 = DEAD;
                    rdied_now = true;
                } else {
                    r2 = *nx;
                    rdied_now = false;
                }
            }
            // old_same for (ps.cg, cr): cr may have been refreshed
            let same_now = if matches!((ps.cg, cr), (Some((_, Lag::Old)), Some((_, Lag::Old)))) { ps.old_same } else { false };
            let gnext = match sym {
                Some(b) => g.edge(ps.g, b),
                None => g.states[ps.g].eoi,
            };
            match gnext {
                None => {
                    if ps.g == g.root && n_is_zero && sym.is_none() {
                        continue; // end of input at a token start: iteration ends
                    }
                    if r2 != DEAD {
                        complain!("EARLY-STOP", i, sym, "the graph has no edge here but some pattern can still match a longer text");
                        continue;
                    }
                    if !ctx_eq(ps.cg, cr, same_now) {
                        complain!("OUTCOME", i, sym, "graph decides {:?}, reference decides {:?} (leaf, lag of the match end)", ps.cg, cr);
                    } else if ps.cg.is_none() && cr.is_none() && !rdied_now {
                        complain!("ERRSPAN", i, sym, "error: the graph gives up here but no pattern could match any extension already one symbol earlier");
                    }
                }
                Some(g2) => {
                    let cg_aged = age(ps.cg);
                    let cr_aged = age(cr);
                    let old_same = both_old_same(ps.cg, cr, cg_aged, cr_aged, same_now);
                    if sym.is_none() {
                        let cg = setup(g2, cg_aged);
                        let os = if cg == cg_aged { old_same } else { false };
                        if !ctx_eq(cg, cr_aged, os) {
                            complain!("OUTCOME", i, sym, "at end of input the graph decides {:?}, reference {:?}", cg, cr_aged);
                        } else if cg.is_none() && !rdied_now {
                            complain!("ERRSPAN", i, sym, "error at end of input reported later than the reference");
                        }
                        continue;
                    }
                    let cg2 = setup(g2, cg_aged);
                    let old_same = if cg2 == cg_aged { old_same } else { false };
                    let over = if r2 == DEAD { ps.over + 1 } else { 0 };
                    if over >= 1 {
                        let st2 = &g.states[g2];
                        let late = st2.accept.is_some() && st2.early.is_none();
                        if over > 1 || !late {
                            complain!("OVERREAD", i, sym, "the graph keeps consuming input after no pattern can match any extension ({} symbols, late accept: {late})", over);
                            continue;
                        }
                        stats.late_accept_overreads += 1;
                    }
                    let u8s = match sym {
                        Some(b) if opt.is_str => utf8::step(ps.u8s, b),
                        _ => 0,
                    };
                    let ns = PState { g: g2, r: r2, cg: cg2, cr: cr_aged, old_same, over, u8s, zero: false };
                    if !seen.contains_key(&ns) {
                        if order.len() >= opt.max_states {
                            complete = false;
                            continue;
                        }
                        seen.insert(ns.clone(), order.len());
                        order.push((ns, i, sym));
                        q.push_back(order.len() - 1);
                    }
                }
            }
        }
    }
    stats.states = order.len();
    (stats, viol, complete)
}

/// Shortest access string (bytes from the token start) for every reachable graph state, by BFS
/// over the graph alone restricted to valid UTF-8 prefixes in str mode; also returns the UTF-8
/// DFA state at the end of that string.
pub fn access_strings(g: &Graph, is_str: bool) -> Vec<Option<(Vec<u8>, u8)>> {
    let n = g.states.len();
    let mut best: Vec<Option<(Vec<u8>, u8)>> = vec![None; n];
    let mut seen: HashMap<(usize, u8), ()> = HashMap::new();
    let mut q: VecDeque<(usize, u8, Vec<u8>)> = VecDeque::new();
    q.push_back((g.root, 0, vec![]));
    seen.insert((g.root, 0), ());
    while let Some((s, u, path)) = q.pop_front() {
        if best[s].is_none() {
            best[s] = Some((path.clone(), u));
        }
        for (rs, t) in &g.states[s].normal {
            // one representative per (range, utf8 class)
            let mut cands: Vec<u8> = vec![];
            for &(lo, hi) in rs {
                cands.push(lo);
                for &c in utf8::CLASS_STARTS.iter() {
                    if lo < c && c <= hi {
                        cands.push(c);
                    }
                }
            }
            for b in cands {
                let u2 = if is_str { utf8::step(u, b) } else { 0 };
                if u2 == utf8::DEAD {
                    continue;
                }
                if seen.insert((*t, u2), ()).is_none() {
                    let mut p = path.clone();
                    p.push(b);
                    q.push_back((*t, u2, p));
                }
            }
        }
    }
    best
}
