//! Spec -> regex-syntax HIR, built independently of the implementation under test.
use crate::spec::{Kind, Lit, Pat, Spec};
use regex_syntax::hir::{Class, ClassBytes, ClassBytesRange, ClassUnicode, ClassUnicodeRange, Dot, Hir, HirKind, Look};

#[derive(Debug, Clone, PartialEq, Eq)]
pub enum Reject {
    /// the regex crate cannot parse the pattern
    Parse(String),
    /// `(?&name)` with no (earlier) definition
    UndefinedSubpattern(String),
    /// duplicate or invalid subpattern definition
    BadSubpattern(String),
}

/// The source text of a byte-string regex: bytes below 128 are themselves, others `\xNN`.
pub fn lit_pattern_text(l: &Lit) -> String {
    match l {
        Lit::Str(s) => s.clone(),
        Lit::Bytes(b) => {
            let mut o = String::new();
            for &x in b {
                if x < 128 {
                    o.push(x as char)
                } else {
                    o.push_str(&format!("\\x{x:02X}"))
                }
            }
            o
        }
    }
}

fn is_name_char(c: u8) -> bool {
    c.is_ascii_alphanumeric() || c == b'_'
}

/// Replace every `(?&name)` by `(?:` + body + `)`-free text: the body already carries its own
/// `(?u:...)` / `(?-u:...)` group.
pub fn inline_subpatterns(src: &str, defs: &[(String, String)]) -> Result<String, Reject> {
    let b = src.as_bytes();
    let mut out = String::new();
    let mut i = 0;
    while i < b.len() {
        if b[i..].starts_with(b"(?&") {
            let mut j = i + 3;
            while j < b.len() && is_name_char(b[j]) {
                j += 1;
            }
            if j > i + 3 && j < b.len() && b[j] == b')' {
                let name = &src[i + 3..j];
                match defs.iter().find(|(n, _)| n == name) {
                    Some((_, body)) => out.push_str(body),
                    None => return Err(Reject::UndefinedSubpattern(name.to_string())),
                }
                i = j + 1;
                continue;
            }
        }
        // copy one char
        let ch_len = src[i..].chars().next().unwrap().len_utf8();
        out.push_str(&src[i..i + ch_len]);
        i += ch_len;
    }
    Ok(out)
}

/// Subpattern bodies with earlier references already inlined: name -> `(?u:src)` / `(?-u:src)`
pub fn subpattern_bodies(spec: &Spec) -> Result<Vec<(String, String)>, Reject> {
    let mut defs: Vec<(String, String)> = vec![];
    for (name, lit) in &spec.subpatterns {
        if defs.iter().any(|(n, _)| n == name) {
            return Err(Reject::BadSubpattern(format!("duplicate {name}")));
        }
        let flags = if lit.is_str() { "u" } else { "-u" };
        // the source must be a pattern BY ITSELF: a text such as `x)|(?:y` only becomes balanced
        // once it is wrapped, and its alternation would then escape the scoping group
        let own = inline_subpatterns(&lit_pattern_text(lit), &defs)?;
        if regex_syntax::ParserBuilder::new().utf8(false).unicode(lit.is_str()).build().parse(&own).is_err() {
            return Err(Reject::BadSubpattern(format!("the source of {name} is not a pattern by itself")));
        }
        let body = format!("(?{flags}:{})", lit_pattern_text(lit));
        let body = inline_subpatterns(&body, &defs)?;
        // must itself be a valid pattern
        regex_syntax::ParserBuilder::new()
            .utf8(false)
            .build()
            .parse(&body)
            .map_err(|e| Reject::Parse(format!("{e}")))?;
        defs.push((name.clone(), body));
    }
    Ok(defs)
}

/// Per-character simple case folding for `ignore(case)` literals.
pub fn fold_literal(bytes: &[u8], unicode: bool) -> Hir {
    if unicode {
        let st = std::str::from_utf8(bytes).expect("str literal");
        Hir::concat(
            st.chars()
                .map(|c| {
                    let mut cl = ClassUnicode::new([ClassUnicodeRange::new(c, c)]);
                    cl.case_fold_simple();
                    Hir::class(Class::Unicode(cl))
                })
                .collect(),
        )
    } else {
        Hir::concat(
            bytes
                .iter()
                .map(|&b| {
                    let mut cl = ClassBytes::new([ClassBytesRange::new(b, b)]);
                    cl.case_fold_simple();
                    Hir::class(Class::Bytes(cl))
                })
                .collect(),
        )
    }
}

pub fn pat_hir(p: &Pat, subs: &[(String, String)]) -> Result<Hir, Reject> {
    match p.kind {
        Kind::Token => {
            let bytes = p.lit.bytes();
            Ok(if p.icase { fold_literal(&bytes, p.lit.is_str()) } else { Hir::literal(bytes) })
        }
        Kind::Regex | Kind::Skip => {
            let text = inline_subpatterns(&lit_pattern_text(&p.lit), subs)?;
            regex_syntax::ParserBuilder::new()
                .utf8(false)
                .unicode(p.lit.is_str())
                .case_insensitive(p.icase)
                .build()
                .parse(&text)
                .map_err(|e| Reject::Parse(format!("{e}")))
        }
    }
}

/// All pattern HIRs of a spec (leaf order), or the first reason the definition must be rejected.
pub fn spec_hirs(spec: &Spec) -> Result<Vec<Hir>, Reject> {
    let subs = subpattern_bodies(spec)?;
    spec.pats.iter().map(|p| pat_hir(p, &subs)).collect()
}

pub fn is_dot_like(h: &Hir) -> bool {
    [
        Dot::AnyChar,
        Dot::AnyByte,
        Dot::AnyByteExceptLF,
        Dot::AnyCharExceptLF,
        Dot::AnyByteExceptCRLF,
        Dot::AnyCharExceptCRLF,
    ]
    .iter()
    .any(|d| *h == Hir::dot(*d))
}

/// Does the HIR contain, anywhere, an unbounded greedy repetition of a dot-equivalent class?
pub fn has_greedy_dot(h: &Hir) -> bool {
    match h.kind() {
        HirKind::Repetition(r) => {
            (r.max.is_none() && r.greedy && is_dot_like(strip_captures(&r.sub))) || has_greedy_dot(&r.sub)
        }
        HirKind::Capture(c) => has_greedy_dot(&c.sub),
        HirKind::Concat(v) | HirKind::Alternation(v) => v.iter().any(has_greedy_dot),
        _ => false,
    }
}

/// what is being repeated: groups do not count, and neither does a repetition nested directly
/// inside - `(?:.{1,5})*` repeats a dot without an upper bound just as `.*` does
fn strip_captures(h: &Hir) -> &Hir {
    match h.kind() {
        HirKind::Capture(c) => strip_captures(&c.sub),
        HirKind::Repetition(r) => strip_captures(&r.sub),
        _ => h,
    }
}

/// Only the top-level shape the implementation is documented to look at: a greedy unbounded dot
/// repetition that is the pattern itself, or a member of a top-level concatenation / alternation /
/// group.
pub fn has_greedy_dot_toplevel(h: &Hir) -> bool {
    match h.kind() {
        HirKind::Repetition(r) => r.max.is_none() && r.greedy && is_dot_like(&r.sub),
        HirKind::Capture(c) => has_greedy_dot_toplevel(&c.sub),
        HirKind::Concat(v) | HirKind::Alternation(v) => v.iter().any(has_greedy_dot_toplevel),
        _ => false,
    }
}

pub fn looks_in(h: &Hir, out: &mut Vec<Look>) {
    match h.kind() {
        HirKind::Look(l) => out.push(*l),
        HirKind::Repetition(r) => looks_in(&r.sub, out),
        HirKind::Capture(c) => looks_in(&c.sub, out),
        HirKind::Concat(v) | HirKind::Alternation(v) => v.iter().for_each(|x| looks_in(x, out)),
        _ => {}
    }
}

pub fn look_supported(l: Look) -> bool {
    !matches!(
        l,
        Look::WordUnicode
            | Look::WordUnicodeNegate
            | Look::WordStartUnicode
            | Look::WordEndUnicode
            | Look::WordStartHalfUnicode
            | Look::WordEndHalfUnicode
    )
}
