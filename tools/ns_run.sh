#!/bin/bash
# ns_run.sh <slot> <patch.diff|-> <command...> : run a command in a private mount namespace where /repo and
# /verif are scratch copies (the patch, if any, is applied to the copy of /repo)
SLOT="$1"; PATCH="$2"; shift 2
NS=/tmp/ns$SLOT
mkdir -p $NS/repo $NS/verif
rsync -a --delete --exclude /target /repo/ $NS/repo/ 2>/dev/null
rsync -a --delete --exclude /out --exclude /replays --exclude /evidence /verif/ $NS/verif/
mkdir -p $NS/verif/out $NS/verif/replays $NS/verif/evidence
if [ "$PATCH" != "-" ]; then git -C $NS/repo apply "$(readlink -f "$PATCH")" || exit 9; fi
unshare -m bash -c "mount --bind $NS/repo /repo && mount --bind $NS/verif /verif && cd /verif && $*"
