#!/bin/bash
# try_seed.sh <patch.diff> <tier> <prop>... : apply a seeded change to /repo, run the given checks, undo it.
set -u
PATCH="$1"; TIER="$2"; shift 2
cd /repo || exit 9
if [ -n "$(git status --porcelain)" ]; then echo "/repo is dirty"; exit 9; fi
git apply "$PATCH" || { echo "patch does not apply to /repo HEAD (re-base it first)"; exit 9; }
trap 'git -C /repo checkout -- . ; git -C /repo clean -fdq -e target' EXIT
cd /verif
for p in "$@"; do
  out=$(./check "$p" --tier "$TIER" 2>&1); rc=$?
  echo "== $p rc=$rc :: $(echo "$out" | grep -c '^VIOLATION') violation lines :: $(echo "$out" | grep -E '^  [A-Z0-9-]+:' | sed -E 's/^  ([A-Z0-9-]+):.*/\1/' | sort | uniq -c | tr '\n' ' ')"
  echo "$out" | grep -E '^  [A-Z0-9-]+:|MACHINERY' | head -3 | cut -c1-330
done
