#!/bin/bash
# try_code.sh <patch.diff>... : apply each patch to /repo in turn, rebuild vgraph, run `vgraph code` (quick), undo
for P in "$@"; do
  git -C /repo apply "$(readlink -f "$P")" || { echo "$P: does not apply"; continue; }
  (cd /verif/engine && cargo build --release --offline -q 2>&1 | grep -E "^error" -A5 | head -20)
  /verif/engine/target/release/vgraph code --prop ALL --tier quick --out /tmp/trycode.json 2>&1 | tail -1
  python3 - "$P" <<'PY'
import json,sys,collections
r=json.load(open('/tmp/trycode.json'))
c=collections.Counter(v['tag'] for v in r['violations'])
print(sys.argv[1], dict(c), 'not_interpretable=',r['observed'].get('not_interpretable_definitions'))
for v in r['violations'][:2]: print('   ',v['tag'],v['case'],'::',v['detail'][:260])
PY
  git -C /repo checkout -- .
done
(cd /verif/engine && cargo build --release --offline -q)
