#!/bin/bash
# replay_test.sh <seed label> <prop>: apply the seed, run the check (writes replays), replay the first record
# (must reproduce, exit 1), undo the seed, replay again (must not reproduce, exit 0).
L=$1; P=$2
cd /repo && git apply /verif/seeded/$L/patch.diff || exit 9
cd /verif; rm -f replays/$P-*.json; ./check $P --tier quick >/dev/null 2>&1; echo "check rc=$?"
F=$(ls replays/$P-0.json 2>/dev/null); ./check --replay $F | tail -2; echo "replay(with seed) rc=$?"
git -C /repo checkout -- . ; git -C /repo clean -fdq -e target
./check --replay $F | tail -1; echo "replay(clean) rc=$?"
