#!/bin/bash
# ns_try_seed.sh <slot> <patch.diff> <tier> <prop>... : try_seed.sh inside a private mount namespace
# in which /repo and /verif are scratch copies (under /tmp/ns<slot>), so the real /repo is never
# touched and several seeds (or a long sweep on the real tree) can run at the same time.
SLOT="$1"; shift
PATCH="$(readlink -f "$1")"; shift
NS=/tmp/ns$SLOT
mkdir -p $NS/repo $NS/verif
rsync -a --delete --exclude /target /repo/ $NS/repo/
rsync -a --delete --exclude /out --exclude /replays --exclude /evidence /verif/ $NS/verif/
mkdir -p $NS/verif/out $NS/verif/replays $NS/verif/evidence
cp "$PATCH" $NS/patch.diff
unshare -m bash -c "mount --bind $NS/repo /repo && mount --bind $NS/verif /verif && cd /verif && tools/try_seed.sh $NS/patch.diff $*"
