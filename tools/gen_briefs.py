#!/usr/bin/env python3
"""gen_briefs.py <round, e.g. r10> : writes /root/<round>/<pid>/brief.md for every property.

The brief handed to a seed sub-agent contains the property text (from properties.jsonl), the rules of
the game, a theme, and one line per change stored so far (so that rounds do not repeat each other).
Nothing about the checks in /verif goes into it."""
import json, os, sys, glob

ROUND = sys.argv[1]
THEMES_R10 = {
 "C01": "a refactoring that MERGES two similar branches / helper functions into one and loses a subtle difference between them (e.g. early vs late accept, first vs later states, str vs bytes)",
 "C02": "a comparison or boundary (`<` vs `<=`, `+1`, an `Option` default) that only matters when two quantities happen to be EQUAL, which ordinary inputs never make them",
 "C03": "a Unicode-specific corner: a particular code-point range or encoded width (2- vs 3- vs 4-byte, the last code point of a range, the gap of the surrogates) treated by a shortcut",
 "C04": "something that needs a SEQUENCE of at least three API calls or three items to show (the first two items are fine)",
 "C05": "a slip that shows only in optimised builds, or only for one Source implementation / one chunk type / one input length modulo the batch size",
 "C06": "numbering / naming / ordering of generated items (state identifiers, table indices, enum variants of the state machine) that goes wrong only for larger definitions",
 "C07": "a particular chunking schedule: the slip needs the buffer to end at one specific kind of position (inside a multi-byte character, right after a skip, right before the end) AND a particular continuation",
 "C08": "an early return / short-circuit / 'fast path' added for performance that skips part of the analysis for a class of definitions",
 "C09": "a rarely used regex construct (a HIR node kind or flag combination hardly anyone writes) handled by a default arm",
 "C10": "a rarely used escape, character or literal form (raw strings, byte escapes, code points at a table boundary) that takes a different path through literal handling",
 "C11": "depth or count: many subpatterns, deep chains of references, the same subpattern referenced many times, long names, names that are prefixes of each other",
 "C12": "an option that behaves differently when it is OMITTED than when its default is written out, or two features whose combination takes a third path",
 "C13": "a callback kind / return type / position that goes through a separate, rarely used arm of the generator (skip callbacks, error callbacks, callbacks on patterns sharing a variant, extras access)",
 "C14": "a history of at least three calls in a particular order (the slip is invisible after any two calls)",
 "C15": "arithmetic at the edges of usize / isize, or a difference between debug and release builds, or between str / [u8] / wrapper sources",
 "C16": "an ordering by an unstable key (address, hash, insertion time), or a NEW place where a hash container is iterated, in a path only some definitions take",
 "C17": "an unusual but legal source file layout or option combination (several items in the file, nested generics, raw identifiers, unusual white space, --format, relative / nested output paths)",
 "C18": "conflicting, repeated or dependent items whose handling depends on which one is seen FIRST",
 "C19": "an unusual token kind or size inside an attribute (raw strings, byte characters, suffixed or negative numbers, very long or deeply nested input, macro-generated groups) reaching an `unwrap` / index / slice",
 "C20": "a specific graph shape in only ONE of the two code generators (or only in the fast loop / only in jump tables)",
}

THEMES_R11 = {
 "C01": "something that depends on the ORDER in which four or more patterns / variants are declared (leaf numbering, which of several equal candidates is visited first), invisible with two or three patterns",
 "C02": "the interplay of the error span with a custom error type, an error callback, or a callback that returns Err - or a difference between str and [u8] in how the span end is rounded",
 "C03": "chains of skips: several consecutive skipped regions, a skip at the very end of the input, a skip directly followed by an error, a skip pattern that is a prefix of a token",
 "C04": "look-around assertions (word boundaries, $, (?m:^)) in a str lexer next to multi-byte text - the one-byte delay of such matches meeting a character that is several bytes long",
 "C05": "table indexing or index arithmetic in the generated code (jump tables, bit-mask tables) for byte values >= 0x80, or a chunk read whose size is not a power of two",
 "C06": "callbacks, extras, skip callbacks or error callbacks in the state-machine generator (the two generators build the call to user code separately)",
 "C07": "partial mode together with look-around patterns, skip callbacks or callbacks that bump",
 "C08": "three or more patterns with PARTIAL overlaps (A and B overlap, B and C overlap, A and C do not), mixing explicit and default priorities",
 "C09": "case-insensitive groups, Unicode classes, counted repetitions {n,m}, or alternations nested inside repetitions when the default priority is computed",
 "C10": "how the literal is escaped before it becomes a regex: metacharacters next to each other, a literal containing a line feed, NUL, DEL, quotes or a backslash at its end",
 "C11": "subpattern NAMES: names that are prefixes of each other, names with digits or underscores, names that differ only in case, a name equal to a flag letter or to another keyword of the syntax",
 "C12": "error spans and skipped regions on non-ASCII text: the two modes must cover the same bytes with errors although they may cut them differently",
 "C13": "what a callback can DO besides returning: mutate extras, bump, read remainder(), return a value borrowed from the source - and how often / in which order that becomes visible",
 "C14": "clone / morph with extras that are not Copy, morph between enums whose extras differ in type (Into), the source() accessor, a SpannedIter turned back into a Lexer",
 "C15": "bump(0), a bump exactly to the end, a bump after next() returned None, a bump on a partial lexer, a bump on a lexer that was morphed or cloned",
 "C16": "output that depends on the environment (working directory, an environment variable, the time, a temporary path, an address) or on iterating something keyed by an unstable value",
 "C17": "non-logos attributes with unusual token shapes (raw-string docs, nested cfg_attr, attributes on the fields of tuple variants), generic parameters with defaults, const generics, where clauses",
 "C18": "arguments INSIDE skip(...) and error(...) groups, named versus positional callbacks, trailing commas, the same argument list on several attributes of one variant",
 "C19": "rarely used regex features: named groups, (?x) / (?U) / (?R) flags, rare Unicode properties, \\b{start} style assertions, \\A / \\z in the middle, empty alternation branches, counted repetitions near a limit",
 "C20": "re-reading caused by late-accept / look-ahead states, by the restart after a skip, or by error recovery",
}
THEMES_R12 = {p: "the CROSSING of two things that are each handled correctly alone - two options, an option and an unusual way of writing the definition, an API call and the state an earlier call left behind, a feature and the position or length at which it is used; pick a pair that earlier rounds have not crossed" for p in ["C%02d" % i for i in range(1, 21)]}
THEMES = {"r10": THEMES_R10, "r11": THEMES_R11}.get(ROUND, THEMES_R12)

props = [json.loads(l) for l in open("/verif/properties.jsonl")]
used = []
for m in sorted(glob.glob("/verif/seeded/*/meta.json")):
    d = json.load(open(m))
    files = ",".join(os.path.basename(f) for f in (d.get("files_changed") or []))
    s = (d.get("summary") or "").replace("\n", " ")[:180]
    used.append(f"- [{d.get('property')}] {files}: {s}")

for p in props:
    pid = p["id"]
    wt = f"/tmp/{ROUND}/{pid}"
    out = f"/root/{ROUND}/{pid}/out"
    os.makedirs(out + "/demo", exist_ok=True)
    brief = f"""# Task

You are given a git worktree of the Rust project maciejhirsz/logos (a derive-macro lexer generator) at
`{wt}` (a scratch worktree; work ONLY there, never in /repo, and do not read /verif). Use
`export CARGO_TARGET_DIR={wt}/target CARGO_NET_OFFLINE=true` for every cargo command (no network; always pass --offline).

Below is a semantic property of logos. Produce ONE realistic change to the logos sources (a plausible
maintainer slip: a refactoring, an 'optimisation', a forgotten case, an off-by-one, two cooperating sites
that each look fine alone) that BREAKS the property while
 (a) the workspace still compiles, and
 (b) the whole existing test suite still passes: `cd {wt} && cargo test --workspace --no-fail-fast --offline` exits 0
     (if a snapshot test under logos-codegen/tests/snapshots changes merely because generated code text changed you may
      NOT edit snapshots - choose another change), and
 (c) it needs something SPECIFIC to manifest (an unusual input, a particular graph shape, a multi-step
     sequence of API calls, a particular attribute order/combination, a particular byte value at a particular
     state ...) - not something ordinary use would expose at once.

Do not touch anything under `logos-codegen/src/verif_hooks.rs`, `src/verif.rs` or lines guarded by
`cfg(feature = "verif_hooks")`; do not change tests; do not add dependencies.

## The property ({pid}): {p['title']}

{p['statement']}

Quantified over: {p['quantifier']['text']}

Anchors (where the behaviour lives): {json.dumps(p['anchors'])}

## Theme for this change

If the property can be broken that way, make it a change of this kind: **{THEMES[pid]}**.
If it really cannot, any change that satisfies (a)-(c) and is not in the list below is welcome.

## Where to look

More than 270 changes have been made in earlier rounds (list below). The heavily used places are
logos-codegen/src/graph/mod.rs, logos-codegen/src/lib.rs, src/lexer.rs, logos-codegen/src/generator/fork.rs and
generator/mod.rs. PREFER a site that has hardly been used, if the property can be broken from there:
logos-codegen/src/parser/mod.rs, parser/nested.rs, parser/definition.rs, parser/error_type.rs, parser/ignore_flags.rs,
parser/type_params.rs, parser/subpattern.rs, logos-codegen/src/leaf.rs, pattern.rs, util.rs, error.rs, graph/dfa_util.rs,
generator/leaf.rs, generator/fast_loop.rs, generator/tables.rs, src/internal.rs, src/lib.rs, src/source.rs,
logos-cli/src/main.rs - or a NEW mechanism in a used file.

## Deliverables (write them to {out}/)

1. `{out}/patch.diff` - `git -C {wt} diff` of your change (sources only).
2. A demonstration that PASSES on the unchanged tree and FAILS with your change, either
   - `{out}/demo/demo.rs`: a self-contained integration test file that will be copied to
     `tests/tests/seed_demo_x.rs` of the worktree and run with `cargo test -p tests --test seed_demo_x --offline`
     (the `tests` crate depends on logos with default features; look at tests/tests/*.rs for style), or
   - `{out}/demo/demo.sh <worktree>`: a script, exit 0 = property holds, non-zero = broken (use this for CLI
     properties, for compile-fail demonstrations, for things needing a scratch crate or another feature set; a scratch
     crate must live under the worktree or a mktemp dir, use path dependencies and --offline, and set CARGO_TARGET_DIR
     to <worktree>/target).
3. `{out}/meta.json`: {{"summary": "<which file/function, before/after, why it looks innocent>", "needs": "<what exactly is needed for it to manifest>", "files_changed": [...]}}

Verify all three claims yourself before finishing (demo passes on clean tree: `git stash` / `git stash pop` or
`git diff > p; git checkout -- .; ...; git apply p`), and leave the worktree with your change applied.
When done, reply with a 5-line summary. If you notice that the UNCHANGED tree itself violates the property
(a genuine bug), describe it in `{out}/side_finding.md` with a reproducer.

## Ideas that have ALREADY been used by earlier rounds (do NOT repeat these or trivial variations)

""" + "\n".join(used) + "\n"
    open(f"/root/{ROUND}/{pid}/brief.md", "w").write(brief)
print("wrote", len(props), "briefs,", len(used), "used ideas")
