#!/bin/bash
# run_all_quick.sh [ids...]: every check's quick command, one after the other, on the real tree; one summary line each
cd /verif
IDS="$@"; [ -z "$IDS" ] && IDS=$(seq -f "C%02g" 1 20)
for p in $IDS; do
  s=$(date +%s)
  ./check $p --tier quick > /verif/out/final.$p.log 2>&1; rc=$?
  echo "$p rc=$rc $(( $(date +%s) - s ))s :: $(tail -1 /verif/out/final.$p.log | cut -c1-220)"
done
