#!/bin/bash
# validate_seed.sh <seed dir (containing patch.diff, demo/, meta.json)> <label>
# Confirms in a scratch worktree of /repo HEAD: demo passes on the clean tree, the patched tree
# compiles and passes the whole existing suite, the demo fails on the patched tree.
set -u
SD="$1"; LABEL="$2"
WT=/tmp/sv/$LABEL
export CARGO_TARGET_DIR=/tmp/sv/target-$LABEL
export CARGO_NET_OFFLINE=true
mkdir -p /tmp/sv
git -C /repo worktree remove --force "$WT" >/dev/null 2>&1
git -C /repo worktree add --detach "$WT" HEAD -q || exit 9
run_demo() {
  if [ -f "$SD/demo/demo.sh" ]; then
    bash "$SD/demo/demo.sh" "$WT" >"/tmp/sv/$LABEL.demo.$1.log" 2>&1
  else
    cp "$SD/demo/demo.rs" "$WT/tests/tests/seed_demo_x.rs"
    (cd "$WT" && cargo test -p tests --test seed_demo_x --offline >"/tmp/sv/$LABEL.demo.$1.log" 2>&1)
    rc=$?; rm -f "$WT/tests/tests/seed_demo_x.rs"; return $rc
  fi
}
run_demo clean; DEMO_CLEAN=$?
if ! git -C "$WT" apply --3way "$SD/patch.diff" >/tmp/sv/$LABEL.apply.log 2>&1; then
  if ! git -C "$WT" apply "$SD/patch.diff" >>/tmp/sv/$LABEL.apply.log 2>&1; then echo "$LABEL: PATCH-DOES-NOT-APPLY"; git -C /repo worktree remove --force "$WT"; rm -rf "$CARGO_TARGET_DIR"; exit 1; fi
fi
git -C "$WT" reset -q 2>/dev/null
(cd "$WT" && cargo test --workspace --no-fail-fast --offline >/tmp/sv/$LABEL.suite.log 2>&1); SUITE=$?
run_demo patched; DEMO_PATCHED=$?
git -C "$WT" diff > /tmp/sv/$LABEL.rebased.diff
echo "$LABEL: demo_clean_rc=$DEMO_CLEAN suite_rc=$SUITE demo_patched_rc=$DEMO_PATCHED"
git -C /repo worktree remove --force "$WT"
rm -rf "$CARGO_TARGET_DIR"
