#!/usr/bin/env python3
"""keep_seed.py <src dir> <label> <property> <validated: text> <caught_by: text>
Copy a confirmed seeded change into /verif/seeded/<label>/ with a meta.json in our format."""
import json, os, shutil, sys
src, label, prop, validated, caught = sys.argv[1:6]
dst = f"/verif/seeded/{label}"
if os.path.exists(dst):
    shutil.rmtree(dst)
os.makedirs(dst)
shutil.copy(f"{src}/patch.diff", f"{dst}/patch.diff")
rebased = f"/tmp/sv/{label}.rebased.diff"
if os.path.exists(rebased) and os.path.getsize(rebased) > 0:
    shutil.copy(rebased, f"{dst}/patch.diff")  # the same change, re-diffed against the current /repo HEAD
shutil.copytree(f"{src}/demo", f"{dst}/demo")
agent = json.load(open(f"{src}/meta.json"))
meta = {
    "property": prop,
    "summary": agent.get("summary"),
    "needs_to_manifest": agent.get("needs"),
    "files_changed": agent.get("files_changed"),
    "author": "independent sub-agent (given only the property text and a scratch worktree)",
    "confirmed_by_us": validated,
    "checks_run_against_it": caught,
    "apply": "git -C /repo apply /verif/seeded/%s/patch.diff ; undo: git -C /repo checkout -- ." % label,
}
json.dump(meta, open(f"{dst}/meta.json", "w"), indent=1, ensure_ascii=False)
print("kept", dst)
