#!/bin/bash
# process_seed.sh <round dir, e.g. /root/r9> <pid> <ns slot> [extra props...]
# validates the seed delivered by a sub-agent in <round dir>/<pid>/out (tools/validate_seed.sh), removes the
# agent's worktree /tmp/<round>/<pid>, then tries the seed in mount-namespace slot <ns slot> (tools/ns_try_seed.sh).
# Never give two running jobs the same slot.
RD=$1; PID=$2; SLOT=$3; shift 3
R=$(basename $RD); L=$(echo $R | tr a-z A-Z)-$PID-m1
cd /verif
tools/validate_seed.sh $RD/$PID/out $L > $RD/$PID/validate.log 2>&1
tail -n 1 $RD/$PID/validate.log
git -C /repo worktree remove --force /tmp/$R/$PID >/dev/null 2>&1
P=/tmp/sv/$L.rebased.diff
[ -s $P ] || P=$RD/$PID/out/patch.diff
cp $P $RD/$PID/rebased.diff
tools/ns_try_seed.sh $SLOT $RD/$PID/rebased.diff quick $PID "$@" > $RD/$PID/try.log 2>&1
grep -E "^== |^  [A-Z]|MACHINERY|dirty|does not apply" $RD/$PID/try.log | cut -c1-400
